//go:build verif

package actor

import (
	"context"
	"errors"
	"fmt"
	"math/rand"
	"runtime"
	"sort"
	"strings"
	"sync"
	"sync/atomic"
	"testing"
	"time"

	"github.com/tochemey/goakt/v4/internal/verifrt"
	"github.com/tochemey/goakt/v4/supervisor"
)

// C09 workload: random actor trees (names encode the ancestry: "r0", "r0-1",
// "r0-1-2"), concurrent stop / spawn / restart operations on overlapping
// subtrees, a hook event log with a global sequence number, checks performed by
// the stopping goroutine the moment its stop call returns, and audits of the
// internal tree at death-watch quiescence.

const (
	c09PreEnter = iota + 1
	c09PreExit
	c09PostEnter
	c09PostExit
)

type c09Ev struct {
	Seq  int64
	Node string
	Kind int
}

type c09Op struct {
	Kind    string // kill | stop-by-parent | shutdown | poisonpill | stop-in-parent-turn | supervisor-stop | spawn | restart | system-stop
	Target  string
	Call    int64
	Ret     int64
	Err     string
	Async   bool
	Panic   string
	Created string // spawn: name of the new node
}

func (o c09Op) String() string {
	return fmt.Sprintf("%s(%s)[#%d..#%d] err=%q panic=%q", o.Kind, o.Target, o.Call, o.Ret, o.Err, o.Panic)
}

type c09Log struct {
	seq atomic.Int64
	mu  sync.Mutex
	evs []c09Ev
	ops []c09Op
}

func (l *c09Log) ev(node string, kind int) int64 {
	s := l.seq.Add(1)
	l.mu.Lock()
	l.evs = append(l.evs, c09Ev{s, node, kind})
	l.mu.Unlock()
	return s
}

type c09Cmd struct {
	Cmd   string // stop-child | panic
	Child *PID
}

type c09Actor struct {
	log  *c09Log
	name string
	live atomic.Int32
}

func (a *c09Actor) PreStart(*Context) error {
	a.log.ev(a.name, c09PreEnter)
	a.live.Add(1)
	a.log.ev(a.name, c09PreExit)
	return nil
}

func (a *c09Actor) PostStop(*Context) error {
	a.log.ev(a.name, c09PostEnter)
	runtime.Gosched()
	a.live.Add(-1)
	a.log.ev(a.name, c09PostExit)
	return nil
}

func (a *c09Actor) Receive(ctx *ReceiveContext) {
	if m, ok := ctx.Message().(*c09Cmd); ok {
		switch m.Cmd {
		case "stop-child":
			// errors (child already gone) are not routed to supervision: swallow them
			_ = ctx.Self().Stop(ctx.Context(), m.Child)
		case "panic":
			panic(errors.New("c09 injected failure"))
		}
	}
}

type c09Node struct {
	name     string
	parent   *c09Node
	children []*c09Node
	act      *c09Actor
	pid      *PID
	dynamic  bool
}

func c09IsAncestor(anc, desc string) bool {
	return len(desc) > len(anc) && strings.HasPrefix(desc, anc+"-")
}

type c09Knobs struct {
	Mix     string // single | stops | stops+spawn | stops+restart | all | system-stop | hammer (every worker stops the same node)
	Roots   int
	Depth   int
	Width   int
	Workers int
	OpsEach int
	Procs   int
	Noise   int
}

func (k c09Knobs) String() string {
	return fmt.Sprintf("mix=%s roots=%d depth=%d width=%d workers=%d ops=%d procs=%d noise=%d", k.Mix, k.Roots, k.Depth, k.Width, k.Workers, k.OpsEach, k.Procs, k.Noise)
}

var c09Mixes = []string{"single", "stops", "stops+spawn", "stops+restart", "all", "system-stop", "hammer", "single"}

func c09GenKnobs(rng *rand.Rand, i int) c09Knobs {
	return c09Knobs{
		Mix:     c09Mixes[i%len(c09Mixes)],
		Roots:   1 + rng.Intn(2),
		Depth:   2 + rng.Intn(3),
		Width:   2 + rng.Intn(3),
		Workers: 2 + rng.Intn(5),
		OpsEach: 1 + rng.Intn(3),
		Procs:   []int{2, 4, 8, 16}[rng.Intn(4)],
		Noise:   rng.Intn(3),
	}
}

type c09Finding struct {
	Sig    string
	Detail string
	// ShapeOf: node whose concurrency shape (overlapping-stops / sequential / ...)
	// is appended to Sig once the whole operation log is known
	ShapeOf string
	// the stop call the verdict belongs to (target and [call, return] interval)
	ShapeTarget string
	ShapeCall, ShapeRet int64
}

type c09Obs struct {
	SelfStopped bool // the actor system stopped by itself (judged as its own finding)
	Knobs      c09Knobs
	Nodes      int
	Ops        []string
	Findings   []c09Finding
	Overlapped bool // two stop operations on an ancestor/descendant pair overlapped in time
	StopsOK    int
	ImmChecks  int
	Watchdog   string
	HotSites   []string
	Delays     int64
	Events     int
	AuditNodes int
	Zombies    int
	Hung       int
	WallMs     int64
	PhaseMs    [5]int64
}

type c09Case struct {
	t     *testing.T
	sys   *actorSystem
	lg    *c09Log
	mu    sync.Mutex
	nodes map[string]*c09Node
	all   []*c09Node
	finds []c09Finding
	dyn   atomic.Int64
	// names touched by restart / spawn operations (immediate judgements are
	// restricted to families no such operation touches)
	disturbed []string
	immChecks atomic.Int64
}

func (c *c09Case) find(sig, format string, args ...any) {
	c.mu.Lock()
	c.finds = append(c.finds, c09Finding{Sig: sig, Detail: fmt.Sprintf(format, args...)})
	c.mu.Unlock()
}

func (c *c09Case) findShaped(sig, node string, op *c09Op, format string, args ...any) {
	c.mu.Lock()
	c.finds = append(c.finds, c09Finding{Sig: sig, Detail: fmt.Sprintf(format, args...), ShapeOf: node, ShapeTarget: op.Target, ShapeCall: op.Call, ShapeRet: op.Ret})
	c.mu.Unlock()
}

func (c *c09Case) addNode(n *c09Node) {
	c.mu.Lock()
	c.nodes[n.name] = n
	c.all = append(c.all, n)
	if n.parent != nil {
		n.parent.children = append(n.parent.children, n)
	}
	c.mu.Unlock()
}

func (c *c09Case) subtree(root *c09Node) []*c09Node {
	c.mu.Lock()
	defer c.mu.Unlock()
	var out []*c09Node
	for _, n := range c.all {
		if n == root || c09IsAncestor(root.name, n.name) {
			out = append(out, n)
		}
	}
	return out
}

func (c *c09Case) familyDisturbed(name string) bool {
	for _, d := range c.disturbed {
		if d == name || c09IsAncestor(d, name) || c09IsAncestor(name, d) {
			return true
		}
	}
	return false
}

var c09StopSupervisor = supervisor.NewSupervisor(supervisor.WithAnyErrorDirective(supervisor.StopDirective))

func (c *c09Case) spawn(parent *c09Node, name string, dynamic bool) (*c09Node, error) {
	n := &c09Node{name: name, parent: parent, act: &c09Actor{log: c.lg, name: name}, dynamic: dynamic}
	ctx := context.Background()
	var err error
	opts := []SpawnOption{WithLongLived(), WithSupervisor(c09StopSupervisor)}
	if parent == nil {
		n.pid, err = c.sys.Spawn(ctx, name, n.act, opts...)
	} else {
		n.pid, err = parent.pid.SpawnChild(ctx, name, n.act, opts...)
	}
	if err != nil {
		return nil, err
	}
	c.addNode(n)
	return n, nil
}

func (c *c09Case) build(parent *c09Node, name string, depth int, k c09Knobs, rng *rand.Rand) {
	n, err := c.spawn(parent, name, false)
	if err != nil {
		c.t.Fatalf("build spawn %s: %v", name, err)
	}
	if depth >= k.Depth || len(c.all) > 20 {
		return
	}
	w := 1 + rng.Intn(k.Width)
	if depth == 1 && w < 2 {
		w = 2
	}
	for i := 0; i < w; i++ {
		c.build(n, fmt.Sprintf("%s-%d", name, i), depth+1, k, rng)
	}
}

// guard runs one framework call, turning a panic into a recorded observation.
func c09Guard(fn func() error) (err error, panicked string) {
	defer func() {
		if p := recover(); p != nil {
			panicked = fmt.Sprintf("%v\n%s", p, verifrt.Stack())
		}
	}()
	return fn(), ""
}

// afterStopReturned is run by the stopping goroutine right after a synchronous
// stop call returned nil: the literal "when the stop returns" judgement.
func (c *c09Case) afterStopReturned(op *c09Op, target *c09Node) {
	if c.familyDisturbed(target.name) {
		return
	}
	ctx := context.Background()
	for _, n := range c.subtree(target) {
		if n.dynamic {
			continue
		}
		c.immChecks.Add(1)
		if n.pid.IsRunning() {
			c.findShaped("running-after-stop-returned:"+op.Kind, n.name, op, "%s returned, yet %s (subtree of %s) IsRunning()", op.String(), n.name, target.name)
		}
		var got *PID
		err, pan := c09Guard(func() error {
			p, e := c.sys.ActorOf(ctx, n.name)
			got = p
			return e
		})
		if pan != "" {
			c.find("panic-in-lookup:ActorOf:after-"+op.Kind, "ActorOf(%s) right after %s panicked: %s", n.name, op.String(), pan)
			continue
		}
		if err == nil && got != nil {
			state := "not-running"
			if got.IsRunning() {
				state = "running"
			}
			rel := "self"
			if n != target {
				rel = "descendant"
			}
			shapeOf := ""
			if state == "running" {
				shapeOf = n.name
			}
			c.findShaped("resolvable-after-stop:immediate-"+state+":"+op.Kind+":"+rel, shapeOf, op, "%s returned at #%d, and ActorOf(%q) at #%d still resolves (pid running=%v, same pid=%v)", op.String(), op.Ret, n.name, c.lg.seq.Load(), got.IsRunning(), got == n.pid)
		}
	}
}

func (c *c09Case) doOp(kind string, target *c09Node, rng *rand.Rand) {
	ctx := context.Background()
	op := c09Op{Kind: kind, Target: target.name}
	var err error
	var pan string
	op.Call = c.lg.seq.Add(1)
	switch kind {
	case "kill":
		err, pan = c09Guard(func() error { return c.sys.Kill(ctx, target.name) })
	case "stop-by-parent":
		if target.parent == nil {
			op.Kind = "kill"
			err, pan = c09Guard(func() error { return c.sys.Kill(ctx, target.name) })
		} else {
			err, pan = c09Guard(func() error { return target.parent.pid.Stop(ctx, target.pid) })
		}
	case "shutdown":
		err, pan = c09Guard(func() error { return target.pid.Shutdown(ctx) })
	case "poisonpill":
		op.Async = true
		err, pan = c09Guard(func() error { return Tell(ctx, target.pid, &PoisonPill{}) })
	case "stop-in-parent-turn":
		op.Async = true
		if target.parent == nil {
			op.Kind = "poisonpill"
			err, pan = c09Guard(func() error { return Tell(ctx, target.pid, &PoisonPill{}) })
		} else {
			err, pan = c09Guard(func() error { return Tell(ctx, target.parent.pid, &c09Cmd{Cmd: "stop-child", Child: target.pid}) })
		}
	case "supervisor-stop":
		op.Async = true
		err, pan = c09Guard(func() error { return Tell(ctx, target.pid, &c09Cmd{Cmd: "panic"}) })
	case "restart":
		err, pan = c09Guard(func() error { return target.pid.Restart(ctx) })
	case "spawn":
		name := fmt.Sprintf("%s-s%d", target.name, c.dyn.Add(1))
		op.Created = name
		err, pan = c09Guard(func() error {
			_, e := c.spawn(target, name, true)
			return e
		})
	}
	op.Ret = c.lg.seq.Add(1)
	if err != nil {
		op.Err = err.Error()
	}
	op.Panic = pan
	if pan != "" {
		short := pan
		if i := strings.IndexByte(short, '\n'); i > 0 {
			short = short[:i]
		}
		what := "other"
		if strings.Contains(short, "nil pointer") {
			what = "nil-pointer"
		}
		c.find("panic-in-call:"+op.Kind+":"+what, "%s panicked: %s", op.String(), pan)
	}
	if pan == "" && err == nil && !op.Async && (op.Kind == "kill" || op.Kind == "stop-by-parent" || op.Kind == "shutdown") {
		c.afterStopReturned(&op, target)
	}
	c.lg.mu.Lock()
	c.lg.ops = append(c.lg.ops, op)
	c.lg.mu.Unlock()
}

// doOpWatched runs one operation under a watchdog. A framework call that does not
// return is decided structurally: the goroutine dump must show the call parked
// inside the framework twice, one second apart; otherwise the case is inconclusive.
func (c *c09Case) doOpWatched(kind string, target *c09Node, rng *rand.Rand) bool {
	done := make(chan struct{})
	call := c.lg.seq.Load()
	var opGid atomic.Int64
	go func() {
		defer close(done)
		opGid.Store(verifrt.GoID())
		c.doOp(kind, target, rng)
	}()
	select {
	case <-done:
		return true
	case <-time.After(10 * time.Second):
	}
	frames := func() []string {
		buf := make([]byte, 4<<20)
		buf = buf[:runtime.Stack(buf, true)]
		var out []string
		for _, g := range strings.Split(string(buf), "\n\n") {
			if strings.HasPrefix(strings.TrimSpace(g), fmt.Sprintf("goroutine %d [", opGid.Load())) {
				out = append(out, g)
			}
		}
		return out
	}
	first := frames()
	select {
	case <-done:
		return true
	case <-time.After(time.Second):
	}
	second := frames()
	where := ""
	for _, g := range second {
		for _, fn := range []string{"restartSubtree", "(*PID).Shutdown", "freeChildren", "(*PID).Restart", "(*actorSystem).Kill", "SpawnChild"} {
			if strings.Contains(g, "actor."+fn) && where == "" {
				where = strings.Trim(fn, "(*)")
			}
		}
	}
	op := c09Op{Kind: kind, Target: target.name, Call: call, Ret: 1 << 60, Err: "hung"}
	c.lg.mu.Lock()
	c.lg.ops = append(c.lg.ops, op)
	c.lg.mu.Unlock()
	if where != "" && len(first) > 0 {
		excerpt := second[0]
		if len(excerpt) > 3000 {
			excerpt = excerpt[:3000]
		}
		c.find("call-never-returned:"+kind+":parked-in-"+where, "%s(%s) issued at #%d has not returned after 11s (normal: milliseconds); target IsRunning=%v; its goroutine is parked inside the framework:\n%s", kind, target.name, call, target.pid.IsRunning(), excerpt)
	} else {
		c.find("watchdog", "%s(%s) did not return within 11s and no parked framework frame was identified", kind, target.name)
	}
	return false
}

func c09Idle(p *PID) bool {
	return p.mailbox.IsEmpty() && p.systemMailbox.IsEmpty() && p.schedState.v.Load() == dispatchIdle
}

// quiesce waits until the death watch and every harness actor have nothing queued
// and no turn in progress, observed on several consecutive polls.
func (c *c09Case) quiesce() bool {
	dw := c.sys.getDeathWatch()
	ug := c.sys.getUserGuardian()
	streak := 0
	return verifrt.WaitUntil(40*time.Second, func() bool {
		ok := c09Idle(dw) && c09Idle(ug)
		if ok {
			c.mu.Lock()
			for _, n := range c.all {
				if n.act.live.Load() > 0 && n.pid.IsRunning() {
					if !c09Idle(n.pid) {
						ok = false
						break
					}
				} else if n.pid.schedState.v.Load() == dispatchProcessing {
					// a stopped actor may keep undeliverable messages; only a turn in progress matters
					ok = false
					break
				}
			}
			c.mu.Unlock()
		}
		if ok {
			streak++
		} else {
			streak = 0
		}
		if streak < 4 {
			time.Sleep(300 * time.Microsecond)
		}
		return streak >= 4
	})
}

// c09AuditTree checks the internal consistency of the tree structure.
func c09AuditTree(x *tree) (findings []c09Finding, nodes int) {
	x.mu.RLock()
	defer x.mu.RUnlock()
	add := func(sig, format string, args ...any) {
		findings = append(findings, c09Finding{Sig: "tree-audit:" + sig, Detail: fmt.Sprintf(format, args...)})
	}
	nodes = len(x.pids)
	if int64(len(x.pids)) != x.counter.Load() {
		add("count-mismatch", "count()=%d but %d nodes are indexed", x.counter.Load(), len(x.pids))
	}
	for id, n := range x.pids {
		p := n.pid.Load()
		if p == nil {
			add("node-without-pid", "node %s is indexed but its pid is nil", id)
			continue
		}
		if n.id != id || p.ID() != id {
			add("index-key-mismatch", "node indexed under %s has id %s / pid id %s", id, n.id, p.ID())
		}
		if nn, ok := x.names[n.name]; !ok || nn != n {
			add("name-index-missing", "node %s (name %s) is not the entry of the name index", id, n.name)
		}
		if pn := n.parentNode; pn != nil {
			if reg, ok := x.pids[pn.id]; !ok || reg != pn {
				add("parent-not-registered", "node %s: parent %s is not registered", n.name, pn.name)
			} else {
				if pn.descendants[id] != n {
					add("parent-link-asymmetric", "node %s has parent %s, which does not list it as a descendant", n.name, pn.name)
				}
			}
		} else if n != x.rootNode {
			add("orphan-node", "node %s has no parent and is not the root", n.name)
		}
		for cid, cn := range n.descendants {
			if reg, ok := x.pids[cid]; !ok || reg != cn {
				add("descendant-not-registered", "node %s lists descendant %s which is not registered", n.name, cid)
			} else if cn.parentNode != n {
				add("descendant-link-asymmetric", "node %s lists descendant %s whose parent link points elsewhere", n.name, cn.name)
			}
		}
		for wid := range n.watchers {
			wn, ok := x.pids[wid]
			if !ok {
				add("watcher-not-registered", "node %s has watcher %s which is not registered", n.name, wid)
			} else if _, ok := wn.watchees[id]; !ok {
				add("watch-asymmetric", "%s is in watchers(%s) but %s is not in watchees(%s)", wn.name, n.name, n.name, wn.name)
			}
		}
		for wid := range n.watchees {
			wn, ok := x.pids[wid]
			if !ok {
				add("watchee-not-registered", "node %s has watchee %s which is not registered", n.name, wid)
			} else if _, ok := wn.watchers[id]; !ok {
				add("watch-asymmetric", "%s is in watchees(%s) but %s is not in watchers(%s)", wn.name, n.name, n.name, wn.name)
			}
		}
	}
	for name, n := range x.names {
		if reg, ok := x.pids[n.id]; !ok || reg != n {
			add("name-index-stale", "name index has %s -> node %s which is not registered", name, n.id)
		}
	}
	return findings, nodes
}

func c09RunCase(t *testing.T, k c09Knobs, seed int64) (obs c09Obs) {
	obs = c09Obs{Knobs: k}
	t0 := time.Now()
	defer func() { obs.WallMs = time.Since(t0).Milliseconds() }()
	rng := rand.New(rand.NewSource(seed))
	prev := runtime.GOMAXPROCS(k.Procs)
	defer runtime.GOMAXPROCS(prev)

	sys := vfNewSystem(t)
	sysStopped := false
	defer func() {
		if !sysStopped {
			vfStop(sys)
		}
	}()
	c := &c09Case{t: t, sys: sys, lg: &c09Log{}, nodes: map[string]*c09Node{}}
	for r := 0; r < k.Roots; r++ {
		c.build(nil, fmt.Sprintf("r%d", r), 1, k, rng)
	}
	static := append([]*c09Node{}, c.all...)
	obs.Nodes = len(static)
	// every PostStart has been handled before the operations begin
	c.quiesce()
	obs.PhaseMs[0] = time.Since(t0).Milliseconds()

	// plan the operations
	type planned struct {
		kind   string
		target *c09Node
	}
	stopKinds := []string{"kill", "stop-by-parent", "shutdown", "poisonpill", "stop-in-parent-turn", "supervisor-stop", "kill", "stop-by-parent"}
	workers := k.Workers
	if k.Mix == "single" {
		workers = 1
	}
	plans := make([][]planned, workers)
	pick := func() *c09Node { return static[rng.Intn(len(static))] }
	hammered := pick()
	for w := 0; w < workers; w++ {
		for o := 0; o < k.OpsEach; o++ {
			kind := stopKinds[rng.Intn(len(stopKinds))]
			tgt := pick()
			if k.Mix == "hammer" {
				// all workers stop one and the same name again and again (the lookups race its removal)
				plans[w] = append(plans[w], planned{[]string{"kill", "kill", "stop-by-parent", "shutdown"}[rng.Intn(4)], hammered})
				continue
			}
			// make overlapping subtrees likely: every second worker takes an ancestor or a
			// descendant of the previous worker's target
			if w > 0 && rng.Intn(2) == 0 && len(plans[w-1]) > 0 {
				pt := plans[w-1][0].target
				if pt.parent != nil && rng.Intn(2) == 0 {
					tgt = pt.parent
				} else if len(pt.children) > 0 {
					tgt = pt.children[rng.Intn(len(pt.children))]
				}
			}
			switch k.Mix {
			case "stops+spawn":
				if rng.Intn(3) == 0 {
					kind = "spawn"
				}
			case "stops+restart":
				if rng.Intn(3) == 0 {
					kind = "restart"
				}
			case "all":
				switch rng.Intn(5) {
				case 0:
					kind = "spawn"
				case 1:
					kind = "restart"
				}
			}
			if kind == "supervisor-stop" && tgt.parent == nil {
				kind = "kill" // a top-level actor's failure is handled by the user guardian, not modelled here
			}
			if kind == "spawn" || kind == "restart" {
				c.disturbed = append(c.disturbed, tgt.name)
			}
			plans[w] = append(plans[w], planned{kind, tgt})
		}
	}

	if k.Noise > 0 {
		obs.HotSites = verifrt.StartNoise(verifrt.NoiseConfig{
			Seed: seed, GoschedPerMille: 20, HotSites: k.Noise,
			Candidates:  vfNoiseSites("actor/pid.go", "pid_tree.go", "death_watch.go", "spawn.go"),
			HotPerMille: 500, MinDelay: 20 * time.Microsecond, MaxDelay: 1500 * time.Microsecond, Budget: 60,
		})
	}

	var wg sync.WaitGroup
	start := make(chan struct{})
	for w := 0; w < workers; w++ {
		wg.Add(1)
		wrng := rand.New(rand.NewSource(seed + int64(w)*7919))
		go func(w int) {
			defer wg.Done()
			<-start
			for _, p := range plans[w] {
				if !c.doOpWatched(p.kind, p.target, wrng) {
					return // the operation never returned: its goroutine is abandoned
				}
				if wrng.Intn(3) == 0 {
					runtime.Gosched()
				}
			}
		}(w)
	}
	t1 := time.Now()
	close(start)
	wg.Wait()
	obs.PhaseMs[1] = time.Since(t1).Milliseconds()
	t2 := time.Now()

	// asynchronous stops: wait for their visible completion (watchdog only)
	c.lg.mu.Lock()
	ops := append([]c09Op{}, c.lg.ops...)
	c.lg.mu.Unlock()
	for _, op := range ops {
		if op.Async && op.Err == "" && op.Panic == "" {
			n := c.nodes[op.Target]
			if c.familyDisturbed(n.name) {
				// a concurrent restart may drop the accepted message or revive the actor: no expectation
				verifrt.WaitUntil(2*time.Second, func() bool { return n.act.live.Load() == 0 })
				continue
			}
			if !verifrt.WaitUntil(30*time.Second, func() bool { return n.act.live.Load() == 0 }) {
				obs.Watchdog = fmt.Sprintf("asynchronous %s was accepted but %s did not stop within 30s", op.String(), n.name)
			}
		}
	}
	obs.PhaseMs[2] = time.Since(t2).Milliseconds()
	t3 := time.Now()
	quiet := c.quiesce()
	obs.PhaseMs[3] = time.Since(t3).Milliseconds()
	if k.Noise > 0 {
		_, obs.Delays = verifrt.StopNoise()
	}
	if !quiet && obs.Watchdog == "" {
		obs.Watchdog = "death watch / harness actors did not become idle within 40s"
	}

	// the actor system must not go down by itself: a Stop directive can make the
	// death-watch actor fail (nil dereference on a cleared tree node) and the system
	// guardian then shuts everything down (same finding as in C07); every actor is
	// stopped behind the scenario's back then, so nothing else is judged in this case
	if !sys.Running() {
		c.find("system:stopped-while-supervising-user-actors", "the actor system stopped by itself during the scenario; ops=%v", ops)
		obs.Findings = c.finds
		obs.SelfStopped = true
		return obs
	}
	if k.Mix == "system-stop" {
		op := c09Op{Kind: "system-stop", Target: "*", Call: c.lg.seq.Add(1)}
		sysStopped = true
		sctx, cancel := context.WithTimeout(context.Background(), 60*time.Second)
		err := sys.Stop(sctx)
		cancel()
		op.Ret = c.lg.seq.Add(1)
		if err != nil {
			op.Err = err.Error()
		}
		ops = append(ops, op)
		for _, n := range c.all {
			if n.act.live.Load() != 0 {
				c.find("alive-after-system-stop", "%s returned, %s has %d live instance(s)", op.String(), n.name, n.act.live.Load())
			}
		}
	}

	c.lg.mu.Lock()
	evs := append([]c09Ev{}, c.lg.evs...)
	c.lg.mu.Unlock()
	sort.Slice(evs, func(i, j int) bool { return evs[i].Seq < evs[j].Seq })
	obs.Events = len(evs)
	for _, op := range ops {
		obs.Ops = append(obs.Ops, op.String())
	}
	tj := time.Now()
	c.judge(evs, ops, &obs, !sysStopped && quiet)
	obs.PhaseMs[4] = time.Since(tj).Milliseconds()

	for _, op := range ops {
		if op.Err == "" && op.Panic == "" && op.Kind != "spawn" && op.Kind != "restart" {
			obs.StopsOK++
		}
	}
	// overlapping stops of an ancestor/descendant pair (measured on the call intervals)
	for i, a := range ops {
		for j, b := range ops {
			if i == j || a.Kind == "spawn" || b.Kind == "spawn" || a.Kind == "restart" || b.Kind == "restart" {
				continue
			}
			if (a.Target == b.Target || c09IsAncestor(a.Target, b.Target)) && a.Call < b.Ret && b.Call < a.Ret {
				obs.Overlapped = true
			}
		}
	}
	obs.ImmChecks = int(c.immChecks.Load())
	obs.Findings = c.finds
	return obs
}

type c09Inc struct {
	preEnter, preExit, postEnter, postExit int64
}

// judge evaluates the PostStop order, the liveness/registration relation at
// quiescence and the tree audit.
func (c *c09Case) judge(evs []c09Ev, ops []c09Op, obs *c09Obs, treeAvailable bool) {
	incs := map[string][]*c09Inc{}
	for _, e := range evs {
		l := incs[e.Node]
		switch e.Kind {
		case c09PreEnter:
			incs[e.Node] = append(l, &c09Inc{preEnter: e.Seq})
		case c09PreExit:
			if len(l) > 0 {
				l[len(l)-1].preExit = e.Seq
			}
		case c09PostEnter:
			// attribute to the latest incarnation that has no PostStop yet
			for i := len(l) - 1; i >= 0; i-- {
				if l[i].postEnter == 0 {
					l[i].postEnter = e.Seq
					break
				}
			}
		case c09PostExit:
			for i := len(l) - 1; i >= 0; i-- {
				if l[i].postEnter != 0 && l[i].postExit == 0 {
					l[i].postExit = e.Seq
					break
				}
			}
		}
	}
	// an asynchronous stop is in progress from its Tell until the target's PostStop ends
	for i := range ops {
		if ops[i].Async && ops[i].Err == "" {
			ops[i].Ret = 1 << 60
			for _, inc := range incs[ops[i].Target] {
				if inc.postExit > ops[i].Call {
					ops[i].Ret = inc.postExit
					break
				}
			}
		}
	}
	caseShape := "stops-only"
	for _, op := range ops {
		if op.Kind == "restart" {
			caseShape = "with-restarts"
			break
		}
		if op.Kind == "spawn" {
			caseShape = "with-spawns"
		}
	}
	// which operation created an incarnation
	creator := func(node string, inc *c09Inc) *c09Op {
		for i := range ops {
			op := &ops[i]
			if op.Call < inc.preEnter && inc.preEnter < op.Ret {
				if op.Kind == "spawn" && op.Created == node {
					return op
				}
				if op.Kind == "restart" && (op.Target == node || c09IsAncestor(op.Target, node)) {
					return op
				}
			}
		}
		return nil
	}
	inFamily := func(a, b string) bool { return a == b || c09IsAncestor(a, b) || c09IsAncestor(b, a) }
	// shape of the concurrency around a node: what a signature is specific to
	shape := func(node string, inc *c09Inc) string {
		if inc != nil {
			if op := creator(node, inc); op != nil && op.Kind == "spawn" {
				return "spawn-racing-stop"
			}
		}
		var fam []c09Op
		restart, spawn := false, false
		for _, op := range ops {
			t := op.Target
			if op.Kind == "system-stop" || !inFamily(t, node) {
				continue
			}
			switch op.Kind {
			case "restart":
				restart = true
			case "spawn":
				spawn = true
			default:
				fam = append(fam, op)
			}
		}
		if restart {
			return "restart-in-family"
		}
		if spawn {
			return "spawn-in-family"
		}
		for i := range fam {
			for j := range fam {
				if i != j && fam[i].Call < fam[j].Ret && fam[j].Call < fam[i].Ret {
					return "overlapping-stops"
				}
			}
		}
		return "sequential"
	}
	hung := func(node string) bool {
		for _, op := range ops {
			if op.Err == "hung" && inFamily(op.Target, node) {
				return true
			}
		}
		return false
	}
	// an incarnation whose PreStart ran, that never got PostStop, and whose pid is flagged
	// neither running nor suspended (a Restart that failed half-way documents "left
	// non-running"): counted, not judged
	zombie := func(node string) bool {
		n := c.nodes[node]
		return n != nil && n.act.live.Load() > 0 && !n.pid.IsRunning() && !n.pid.IsSuspended()
	}
	// (1) children first
	for anc, al := range incs {
		if hung(anc) {
			continue
		}
		for ai, a := range al {
			if a.postEnter == 0 {
				continue
			}
			for desc, dl := range incs {
				if !c09IsAncestor(anc, desc) {
					continue
				}
				for di, d := range dl {
					if d.preExit == 0 || d.preExit > a.postEnter {
						continue
					}
					if d.postExit != 0 && d.postExit < a.postEnter {
						continue
					}
					how := shape(desc, d)
					if d.postExit == 0 {
						if di == len(dl)-1 && zombie(desc) {
							obs.Zombies++
							continue
						}
						c.find("descendant-never-stopped:"+how, "%s incarnation %d entered PostStop at #%d while descendant %s incarnation %d (PreStart done at #%d) had not stopped and never did; ops=%v", anc, ai+1, a.postEnter, desc, di+1, d.preExit, c09OpsOn(ops, desc))
					} else {
						c.find("descendant-poststop-after-ancestor:"+how, "%s incarnation %d entered PostStop at #%d but descendant %s incarnation %d (PreStart done at #%d) completed PostStop only at #%d; ops=%v", anc, ai+1, a.postEnter, desc, di+1, d.preExit, d.postExit, c09OpsOn(ops, desc))
					}
				}
			}
		}
	}
	// immediate "still running" verdicts: name the concurrency shape around the node.
	// "overlapping-stops" is kept for the case where another caller was concurrently
	// stopping the node itself or something strictly between the call's target and the
	// node (the ancestor's stop then skips that part without waiting for it); when only
	// the call's own target (or an ancestor of it) was being stopped by somebody else,
	// the call has to wait for that stop, and the shape is named separately.
	c.mu.Lock()
	for i := range c.finds {
		f := &c.finds[i]
		if f.ShapeOf == "" {
			continue
		}
		how := shape(f.ShapeOf, nil)
		if how == "overlapping-stops" && f.ShapeTarget != "" {
			below, onTarget := false, false
			for _, o := range ops {
				if o.Kind == "spawn" || o.Kind == "restart" || o.Kind == "system-stop" {
					continue
				}
				if o.Call == f.ShapeCall && o.Target == f.ShapeTarget {
					continue // the call itself
				}
				if !(o.Call < f.ShapeRet && f.ShapeCall < o.Ret) {
					continue
				}
				switch {
				case o.Target == f.ShapeTarget || c09IsAncestor(o.Target, f.ShapeTarget):
					onTarget = true
				case c09IsAncestor(f.ShapeTarget, o.Target) && (o.Target == f.ShapeOf || c09IsAncestor(o.Target, f.ShapeOf)):
					below = true
				}
			}
			if !below && onTarget {
				how = "target-stopped-concurrently"
			}
		}
		f.Sig += ":" + how
		f.ShapeOf = ""
	}
	c.mu.Unlock()
	if !treeAvailable {
		return
	}
	// (2) liveness vs registration at quiescence
	ctx := context.Background()
	tr := c.sys.tree()
	c.mu.Lock()
	all := append([]*c09Node{}, c.all...)
	c.mu.Unlock()
	for _, n := range all {
		l := incs[n.name]
		if len(l) == 0 || hung(n.name) {
			continue
		}
		last := l[len(l)-1]
		alive := n.act.live.Load() > 0
		if op := creator(n.name, last); op != nil && op.Kind == "restart" && len(l) > 1 {
			if prev := l[len(l)-2]; prev.postExit != 0 && prev.postExit < op.Call && op.Target == n.name {
				// PID.Restart was called on an actor that had already completely stopped: a
				// revival by explicit request, which the statement does not cover
				continue
			}
		}
		if zombie(n.name) {
			obs.Zombies++
			continue
		}
		how := shape(n.name, last)
		node, registered := tr.node(n.pid.ID())
		if registered && node.value() != n.pid {
			c.find("registered-under-other-pid:"+how, "%s is registered with a different pid object", n.name)
		}
		var resolved *PID
		err, pan := c09Guard(func() error {
			p, e := c.sys.ActorOf(ctx, n.name)
			resolved = p
			return e
		})
		if pan != "" {
			c.find("panic-in-lookup:ActorOf:quiescent", "ActorOf(%s) at quiescence panicked: %s", n.name, pan)
		}
		if alive {
			if !registered {
				c.find("live-actor-not-registered:"+how, "%s is alive (PreStart at #%d, no PostStop, IsRunning=%v) but not in the tree at quiescence; ops=%v", n.name, last.preEnter, n.pid.IsRunning(), c09OpsOn(ops, n.name))
			}
			// every ancestor must be alive
			for p := n.parent; p != nil; p = p.parent {
				if p.act.live.Load() > 0 {
					continue
				}
				pl := incs[p.name]
				pend := pl[len(pl)-1].postExit
				op := creator(n.name, last)
				if op != nil && op.Call > pend {
					// revived by a harness call issued after the ancestor had completely stopped: not judged
					break
				}
				by := "build"
				if op != nil {
					by = op.String()
				}
				c.find("live-actor-under-stopped-ancestor:"+how, "%s is alive (PreStart at #%d by %s, IsRunning=%v) although ancestor %s completed PostStop at #%d; ops=%v", n.name, last.preEnter, by, n.pid.IsRunning(), p.name, pend, c09OpsOn(ops, n.name))
				break
			}
		} else {
			if last.postExit == 0 {
				// the live counter dropped but the log snapshot has no completed PostStop
				// for this incarnation: a stop is still in progress while the verdict is
				// taken, so "has stopped" cannot be claimed (counted, not judged)
				obs.Zombies++
				continue
			}
			if registered {
				c.find("stopped-actor-registered:quiescent:"+how, "%s has stopped (PostStop done at #%d) but is still in the tree at death-watch quiescence; ops=%v", n.name, last.postExit, c09OpsOn(ops, n.name))
			}
			if err == nil && resolved != nil && pan == "" {
				state := "not-running"
				if resolved.IsRunning() {
					state = "running"
				}
				c.find("resolvable-after-stop:quiescent-"+state+":"+how, "%s has stopped (PostStop done at #%d) but ActorOf still resolves it at death-watch quiescence (same pid=%v); ops=%v", n.name, last.postExit, resolved == n.pid, c09OpsOn(ops, n.name))
			}
		}
	}
	// (3) structure audit
	fs, nodes := c09AuditTree(tr)
	obs.AuditNodes = nodes
	for i := range fs {
		fs[i].Sig += ":" + caseShape
		fs[i].Detail += fmt.Sprintf("; ops=%v", obs.Ops)
	}
	c.mu.Lock()
	c.finds = append(c.finds, fs...)
	c.mu.Unlock()
}

func c09OpsOn(ops []c09Op, name string) []string {
	var out []string
	for _, op := range ops {
		if op.Target == name || c09IsAncestor(op.Target, name) || c09IsAncestor(name, op.Target) {
			out = append(out, op.String())
		}
	}
	return out
}
