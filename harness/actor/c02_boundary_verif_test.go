//go:build verif

package actor

import (
	"context"
	"fmt"
	"math/rand"
	"runtime"
	"sync"
	"sync/atomic"
	"time"
	"testing"

	"github.com/tochemey/goakt/v4/internal/verifrt"
)

// C02 boundary workload: lost wake-ups hide at the end of a turn. Each round
// builds a backlog of exactly k messages behind a gated handler (k around the
// throughput budget: budget-1, budget, budget+1, 2*budget), releases the gate and
// races 1-2 more Tells against the end of that turn; then all senders stop. The
// verdict is structural, not timed: once every Tell has returned, an accepted
// message that sits in the mailbox while the dispatch state is Idle can never be
// woken by anybody (nobody will call TrySchedule again) -> lost wake-up.

type c02bMsg struct {
	id   int
	gate chan struct{} // non-nil: the handler blocks until it is closed
}

type c02bActor struct {
	handled atomic.Int64
	seen    []atomic.Int32
}

func (a *c02bActor) PreStart(*Context) error { return nil }
func (a *c02bActor) PostStop(*Context) error { return nil }
func (a *c02bActor) Receive(ctx *ReceiveContext) {
	m, ok := ctx.Message().(*c02bMsg)
	if !ok {
		return
	}
	if m.gate != nil {
		<-m.gate
	}
	a.seen[m.id].Add(1)
	a.handled.Add(1)
}

// c02RunBoundary runs rounds on one system and reports violations to r.
func c02RunBoundary(t *testing.T, r *verifrt.Run, rng *rand.Rand, cases int) {
	for c := 0; c < cases; c++ {
		budget := []int{1, 2, 4, 32}[rng.Intn(4)]
		kind := []string{"unbounded", "segmented", "fair", "nonblocking", "priority"}[rng.Intn(5)]
		procs := []int{2, 4, 16}[rng.Intn(3)]
		noise := rng.Intn(3)
		rounds := 60
		prev := runtime.GOMAXPROCS(procs)
		sys := vfNewSystem(t, WithThroughputBudget(budget))
		maxMsgs := rounds * (2*budget + 4)
		act := &c02bActor{seen: make([]atomic.Int32, maxMsgs+8)}
		pid, err := sys.Spawn(context.Background(), "boundary", act, WithMailbox(vfNewMailbox(kind, maxMsgs+64, nil)), WithLongLived())
		if err != nil {
			t.Fatalf("spawn: %v", err)
		}
		var hot []string
		if noise > 0 {
			hot = verifrt.StartNoise(verifrt.NoiseConfig{Seed: rng.Int63(), GoschedPerMille: 10, HotSites: noise,
				Candidates: verifrt.SitesIn("dispatch_state.go", "actor/pid.go"), HotPerMille: 600,
				MinDelay: 20 * time.Microsecond, MaxDelay: 400 * time.Microsecond, Budget: 400})
		}
		key := fmt.Sprintf("boundary budget=%d mb=%s procs=%d noise=%d", budget, kind, procs, noise)
		id := 0
		var expected int64
		stuck := ""
		raced := 0
		ctx := context.Background()
		for round := 0; round < rounds && stuck == ""; round++ {
			k := []int{budget - 1, budget, budget, budget + 1, 2 * budget}[rng.Intn(5)]
			if k < 1 {
				k = 1
			}
			gate := make(chan struct{})
			for i := 0; i < k; i++ {
				m := &c02bMsg{id: id}
				id++
				if i == 0 {
					m.gate = gate
				}
				if Tell(ctx, pid, m) == nil {
					expected++
				}
			}
			nr := 1 + rng.Intn(2)
			var wg sync.WaitGroup
			racers := make([]*c02bMsg, nr)
			for i := range racers {
				racers[i] = &c02bMsg{id: id}
				id++
			}
			var accepted atomic.Int64
			for i := 0; i < nr; i++ {
				wg.Add(1)
				spin := rng.Intn(k*40 + 50)
				go func(m *c02bMsg, spin int) {
					defer wg.Done()
					for j := 0; j < spin; j++ {
						runtime.Gosched()
					}
					if Tell(ctx, pid, m) == nil {
						accepted.Add(1)
					}
				}(racers[i], spin)
			}
			close(gate)
			wg.Wait()
			expected += accepted.Load()
			raced += nr
			// all senders have returned: wait for completion or for the structural stuck state
			stable := 0
			for {
				if act.handled.Load() >= expected {
					break
				}
				if pid.schedState.Load() == dispatchIdle && !pid.mailbox.IsEmpty() {
					stable++
					if stable >= 50 {
						// re-confirm after a pause: still idle, still non-empty, nothing handled meanwhile
						h := act.handled.Load()
						time.Sleep(20 * time.Millisecond)
						if pid.schedState.Load() == dispatchIdle && !pid.mailbox.IsEmpty() && act.handled.Load() == h {
							stuck = fmt.Sprintf("round %d: %d accepted, %d handled; dispatch state Idle with a non-empty mailbox after every Tell returned (backlog k=%d, racers=%d)", round, expected, h, k, nr)
						}
						break
					}
				} else {
					stable = 0
				}
				runtime.Gosched()
			}
		}
		if noise > 0 {
			verifrt.StopNoise()
		}
		if stuck != "" {
			// the message is revived only by another Tell: show that too
			_ = Tell(ctx, pid, &c02bMsg{id: id})
			revived := verifrt.WaitUntil(2*time.Second, func() bool { return act.handled.Load() >= expected+1 })
			r.Violation("lost-wakeup:idle-with-pending:boundary:"+kind, map[string]any{"case": key, "stuck": stuck, "revived_by_a_later_tell": revived, "hot_sites": hot})
		}
		for i := 0; i < id && i < len(act.seen); i++ {
			if n := act.seen[i].Load(); n > 1 {
				r.Violation("duplicate-handling:boundary:"+kind, map[string]any{"case": key, "id": i, "times": n})
				break
			}
		}
		r.Case(key+"/"+fmt.Sprint(c), true)
		r.Count("boundary_rounds", int64(rounds))
		r.Count("boundary_racing_tells", int64(raced))
		vfStop(sys)
		runtime.GOMAXPROCS(prev)
	}
}
