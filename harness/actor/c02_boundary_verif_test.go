//go:build verif

package actor

import (
	"context"
	"fmt"
	"math/rand"
	"runtime"
	"sync"
	"sync/atomic"
	"time"
	"testing"

	"github.com/tochemey/goakt/v4/internal/verifrt"
)

// C02 boundary workload: lost wake-ups hide at the end of a turn. Each round
// builds a backlog of exactly k messages behind a gated handler (k around the
// throughput budget: budget-1, budget, budget+1, 2*budget), releases the gate and
// races 1-2 more Tells against the end of that turn; then all senders stop. The
// verdict is structural, not timed: once every Tell has returned, an accepted
// message that sits in the mailbox while the dispatch state is Idle can never be
// woken by anybody (nobody will call TrySchedule again) -> lost wake-up.

type c02bMsg struct {
	id   int
	gate chan struct{} // non-nil: the handler blocks until it is closed
}

type c02bActor struct {
	handled   atomic.Int64
	seen      []atomic.Int32
	inHandler atomic.Int64 // overlap word (C01): token of the invocation in progress
	tok       atomic.Int64
	overlaps  atomic.Int64
	plain     int // touched only in Receive: the race detector sees unordered turns
}

func (a *c02bActor) PreStart(*Context) error { return nil }
func (a *c02bActor) PostStop(*Context) error { return nil }
func (a *c02bActor) Receive(ctx *ReceiveContext) {
	m, ok := ctx.Message().(*c02bMsg)
	if !ok {
		return
	}
	tok := a.tok.Add(1)
	if !a.inHandler.CompareAndSwap(0, tok) {
		a.overlaps.Add(1)
	}
	a.plain++
	if m.gate != nil {
		<-m.gate
	}
	a.seen[m.id].Add(1)
	a.handled.Add(1)
	a.inHandler.CompareAndSwap(tok, 0)
}

// c02RunBoundary runs rounds on one system and reports violations to r.
func c02RunBoundary(t *testing.T, r *verifrt.Run, rng *rand.Rand, cases int) {
	c02RunBoundaryFor(t, r, rng, cases, false)
}

// c02RunBoundaryFor: forC01 selects which verdicts are reported (the overlap
// monitors for C01, the wake-up / exactly-once ledger for C02).
func c02RunBoundaryFor(t *testing.T, r *verifrt.Run, rng *rand.Rand, cases int, forC01 bool) {
	for c := 0; c < cases; c++ {
		budget := []int{1, 2, 4, 32}[rng.Intn(4)]
		kind := []string{"unbounded", "segmented", "fair", "nonblocking", "priority"}[rng.Intn(5)]
		procs := []int{2, 4, 16}[rng.Intn(3)]
		noise := rng.Intn(3)
		rounds := 60
		prev := runtime.GOMAXPROCS(procs)
		tm := &vfTurnMonitor{}
		uninstall := vfInstallTurnMonitor(tm)
		sys := vfNewSystem(t, WithThroughputBudget(budget))
		maxMsgs := rounds*(2*budget+4+segmentSize) + 64
		act := &c02bActor{seen: make([]atomic.Int32, maxMsgs+8)}
		pid, err := sys.Spawn(context.Background(), "boundary", act, WithMailbox(vfNewMailbox(kind, maxMsgs+64, nil)), WithLongLived())
		if err != nil {
			t.Fatalf("spawn: %v", err)
		}
		var hot []string
		if noise > 0 {
			// the few yield sites of the dispatch state machine are the end-of-turn
			// windows (reset / reclaim / schedule / take): with 1-3 hot sites out of
			// ~6 candidates every window is held open in a good share of the cases
			cands, nhot := verifrt.SitesIn("dispatch_state.go"), noise+1
			if kind == "segmented" && rng.Intn(2) == 0 {
				// the consumer's window between reading the write index and the next link
				cands, nhot = verifrt.SitesIn("dispatch_state.go", "unbounded_segmented_mailbox.go"), noise+3
			}
			hot = verifrt.StartNoise(verifrt.NoiseConfig{Seed: rng.Int63(), GoschedPerMille: 10, HotSites: nhot,
				Candidates: cands, HotPerMille: 700,
				MinDelay: 20 * time.Microsecond, MaxDelay: 300 * time.Microsecond, Budget: 2000})
		}
		key := fmt.Sprintf("boundary budget=%d mb=%s procs=%d noise=%d", budget, kind, procs, noise)
		id := 0
		var expected int64
		stuck := ""
		raced := 0
		ctx := context.Background()
		for round := 0; round < rounds && stuck == ""; round++ {
			k := []int{budget - 1, budget, budget, budget + 1, 2 * budget}[rng.Intn(5)]
			if k < 1 {
				k = 1
			}
			segRound := false
			if seg, ok := pid.mailbox.(*UnboundedSegmentedMailbox); ok && rng.Intn(2) == 0 {
				// segment boundary: size the backlog so that it fills the tail segment
				// exactly; the racing Tell then lands in slot 0 of a freshly linked
				// segment (the previous round is quiescent, the write index is exact)
				// (or, one time in two, leaves one free slot: the first racer takes the
				// last slot while the second one links the successor)
				if w := int(seg.tail.Load().writeIdx.Load()); w < segmentSize && id+(segmentSize-w)+8 < maxMsgs {
					if k = segmentSize - w - rng.Intn(2); k < 1 {
						k = 1
					}
					segRound = true
				}
			}
			gate := make(chan struct{})
			for i := 0; i < k; i++ {
				m := &c02bMsg{id: id}
				id++
				if i == 0 {
					m.gate = gate
				}
				if Tell(ctx, pid, m) == nil {
					expected++
				}
			}
			nr := 1 + rng.Intn(2)
			if segRound {
				nr = 2
			}
			var wg sync.WaitGroup
			racers := make([]*c02bMsg, nr)
			for i := range racers {
				racers[i] = &c02bMsg{id: id}
				id++
			}
			var accepted atomic.Int64
			for i := 0; i < nr; i++ {
				wg.Add(1)
				spin := rng.Intn(k*40 + 50)
				// two racers in three aim at the end of the turn: they fire when the
				// handler count shows the backlog is (almost) drained, so the Tell lands
				// between the worker's last empty Dequeue and its Idle transition
				target := int64(-1)
				switch rng.Intn(3) {
				case 1:
					target, spin = expected, rng.Intn(8)
				case 2:
					target, spin = expected-1, rng.Intn(30)
				}
				go func(m *c02bMsg, spin int) {
					defer wg.Done()
					for w := 0; target >= 0 && act.handled.Load() < target && w < 5000000; w++ {
						runtime.Gosched()
					}
					for j := 0; j < spin; j++ {
						runtime.Gosched()
					}
					if Tell(ctx, pid, m) == nil {
						accepted.Add(1)
					}
				}(racers[i], spin)
			}
			close(gate)
			wg.Wait()
			expected += accepted.Load()
			raced += nr
			// all senders have returned: wait for completion or for the structural stuck state
			stable := 0
			lostStable := 0
			waitStart := time.Now()
			for {
				if act.handled.Load() >= expected {
					break
				}
				st := pid.schedState.Load()
				empty := pid.mailbox.IsEmpty() && pid.systemMailbox.IsEmpty()
				switch {
				case st == dispatchIdle && empty:
					// idle, nothing queued, yet accepted messages were never handled
					lostStable++
					stable = 0
					if lostStable >= 200 {
						lostStable = 0
						h := act.handled.Load()
						frozen, why := vfStructurallyStuck(func() bool {
							return pid.schedState.Load() == dispatchIdle && pid.mailbox.IsEmpty() && pid.systemMailbox.IsEmpty() && pid.schedState.Load() == dispatchIdle && act.handled.Load() == h && h < expected
						}, 30*time.Second)
						if why != "" {
							r.Inconclusive("C02 boundary: %s round %d: %s", key, round, why)
						}
						if frozen {
							lost := 0
							for i := 0; i < id && i < len(act.seen); i++ {
								if act.seen[i].Load() == 0 {
									lost++
								}
							}
							if !forC01 {
								r.Violation("accepted-message-lost:mailbox-empty-and-idle:boundary:"+kind, map[string]any{"case": key, "round": round, "accepted": expected, "handled": h, "never_handled_ids": lost, "backlog": k, "hot_sites": hot})
							}
							expected = h // keep going with what is left
						}
					}
				case st == dispatchIdle && !empty:
					stable++
					lostStable = 0
					if stable >= 50 {
						stable = 0
						h := act.handled.Load()
						frozen, why := vfStructurallyStuck(func() bool {
							return pid.schedState.Load() == dispatchIdle && !pid.mailbox.IsEmpty() && act.handled.Load() == h
						}, 30*time.Second)
						if why != "" {
							r.Inconclusive("C02 boundary: %s round %d: %s", key, round, why)
						}
						if frozen {
							stuck = fmt.Sprintf("round %d: %d accepted, %d handled; dispatch state Idle with a non-empty mailbox, every Tell returned and no goroutine inside the dispatch path (backlog k=%d, racers=%d)", round, expected, h, k, nr)
						}
					}
				default:
					stable, lostStable = 0, 0
				}
				if stuck != "" {
					break
				}
				if time.Since(waitStart) > 120*time.Second {
					r.Inconclusive("C02 boundary watchdog: %s round %d handled=%d expected=%d state=%s", key, round, act.handled.Load(), expected, vfSchedStateName(pid))
					expected = act.handled.Load()
					break
				}
				runtime.Gosched()
			}
		}
		if noise > 0 {
			verifrt.StopNoise()
		}
		if stuck != "" && !forC01 {
			// the message is revived only by another Tell: show that too
			_ = Tell(ctx, pid, &c02bMsg{id: id})
			revived := verifrt.WaitUntil(2*time.Second, func() bool { return act.handled.Load() >= expected+1 })
			r.Violation("lost-wakeup:idle-with-pending:boundary:"+kind, map[string]any{"case": key, "stuck": stuck, "revived_by_a_later_tell": revived, "hot_sites": hot})
		}
		for i := 0; i < id && i < len(act.seen) && !forC01; i++ {
			if n := act.seen[i].Load(); n > 1 {
				r.Violation("duplicate-handling:boundary:"+kind, map[string]any{"case": key, "id": i, "times": n})
				break
			}
		}
		if forC01 {
			if n := act.overlaps.Load(); n > 0 {
				r.Violation("handler-overlap:boundary:"+kind, map[string]any{"case": key, "count": n, "hot_sites": hot})
			}
			if n := tm.overlaps.Load(); n > 0 {
				r.Violation("turn-overlap:boundary:"+kind, map[string]any{"case": key, "count": n, "hot_sites": hot})
			}
			r.Count("boundary_turns_observed", tm.enters.Load())
		}
		uninstall()
		r.Case(key+"/"+fmt.Sprint(c), true)
		r.Count("boundary_rounds", int64(rounds))
		r.Count("boundary_racing_tells", int64(raced))
		vfStop(sys)
		runtime.GOMAXPROCS(prev)
	}
}
