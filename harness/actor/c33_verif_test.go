//go:build verif

package actor

import (
	"fmt"
	"testing"
	"time"

	"github.com/tochemey/goakt/v4/internal/verifrt"
)

// TestVerif_C33: after a node departs, each of its relocatable actors ends up running on exactly
// one survivor or is listed in the single RelocationFailed event of that departure; duplicate
// departure notifications while a relocation is in flight do not start a second relocation.
func TestVerif_C33(t *testing.T) {
	r := verifrt.Start(t, "C33")
	defer r.Finish()
	r.Rule("case = one departure (graceful stop with snapshot push, or abrupt crash) of a node hosting 5-40 harness actors (plain, role-constrained incl. a role nobody else advertises, singletons, non-relocatable, parents with (never relocatable) children, kinds registered nowhere, PreStart failing permanently/transiently on targets) in a cluster of 4+ real actor systems (real remoting, shared linearizable fake registry, node 0 leads), driven by one of 17 fault scripts: 1-4 departure notifications to the leader (queued back to back / while the relocation worker is held at its peer listing, its load scan, a target's registry read or a target's PreStart / after completion), followers notified before, during or after, a survivor the worker already listed crashed before its batch, registry failures at one peer or at the leader, the worker unable to list peers (abort path), leadership moved to another node mid-relocation (with or without its own snapshot copy), the departing node also hosting grains so that a share spans an actor batch and a grain batch while one target stalls in its actor batch, dies, answers it with per-item failures and refuses the grain batch. Judged at structural quiescence (no job registered on any node, no worker alive, no registry operation in flight; every notification proven handled by a marker pushed through the same events loop; every Rebalance order proven turned into a worker by a relocator probe). oracle: relocatable(departed) = runningOnExactlyOneSurvivor (process-wide PreStart/PostStop gauge, cross-checked against the survivors' actor trees) disjoint-union namesListedInRelocationFailed; at most one RelocationFailed event per leader node and departure; no second relocation worker while the first is provably in flight (held by the harness with the job registered); no non-relocatable actor recreated; nothing foreign listed. non-trivial = a relocation worker ran and the script's hold point / duplicates-while-job-registered / injected fault / listed failures were measured; distinct by script, population and seed")
	r.Assume("the registry is linearizable per key (one mutex in the fake); an injected registry failure leaves the store untouched")
	r.Assume("queued duplicates of a crash notification race asynchronous registry derivations that the harness cannot order against the first relocation's end, so for that one script only name conservation is demanded (several sequential relocations/events are tolerated)")
	r.Assume("leadership moved by the harness while the old leader is alive: uniqueness of worker and RelocationFailed event is demanded per leader node, name conservation cluster-wide; the new leader's relocation is let run to its end before the old leader's held worker is released")
	r.Assume("which nodes hold the departed node's snapshot is read from their peer-state stores right after the graceful stop; a loss that follows from the snapshot not being on the leader is reported once per case under its root-cause signature")

	rng := r.Rand(33)
	n := r.N(48, 640)

	var opts []vfcOption
	for i := 0; i < 400; i++ {
		opts = append(opts, vfcWithRoles(i, c33RolesFor(i)...))
	}
	opts = append(opts, vfcWithKinds(&C33Actor{}), vfcWithGrains(&C33Grain{}))
	t0 := time.Now()
	cl := vfcNewCluster(t, 4, opts...)
	r.Count("millis:cluster-start", time.Since(t0).Milliseconds())
	defer cl.Stop()
	mon := c33NewMon(cl)
	c33Current.Store(mon)
	defer c33Current.Store(nil)
	SetVerifTurnHook(mon.turnHook)
	defer SetVerifTurnHook(nil)
	cl.SetHook(mon.before)
	cl.SetAfterHook(mon.after)

	total := 0
	for _, s := range c33Scripts {
		total += s.Weight
	}
	for i := 0; i < n; i++ {
		var sc c33Script
		// the scripts are walked round-robin across batches first, then drawn by weight
		slot := r.Batch + i*r.NBatch
		if slot < 2*len(c33Scripts) {
			sc = c33Scripts[slot%len(c33Scripts)]
		} else {
			w := rng.Intn(total)
			for _, s := range c33Scripts {
				if w < s.Weight {
					sc = s
					break
				}
				w -= s.Weight
			}
		}
		seed := rng.Int63()
		prefix := fmt.Sprintf("c33b%dk%d-", r.Batch, i)
		out := c33RunCase(cl, mon, sc, seed, prefix)
		for k, v := range out.Counts {
			if len(k) > 4 && k[:4] == "max:" {
				r.Max(k[4:], v)
			} else {
				r.Count(k, v)
			}
		}
		r.Count("cases:"+sc.Name, 1)
		for _, f := range out.Findings {
			r.Violation(f.Sig, f.Detail)
		}
		if out.Stalled != "" {
			r.Inconclusive("case %d (%s, seed %d): %s", i, sc.Name, seed, out.Stalled)
			break
		}
		if out.NonTrivial {
			r.Count("nontrivial:"+sc.Name, 1)
		}
		r.Case(out.Key, out.NonTrivial)
		if i < 3 {
			r.Sample(out.Sample)
		}
		t.Logf("c33 case %d %s: %v", i, sc.Name, out.Sample)
	}
}
