//go:build verif

package actor

import (
	"context"
	"encoding/hex"
	"encoding/json"
	stderrors "errors"
	"fmt"
	"math"
	"math/rand"
	"net"
	"sort"
	"strings"
	"testing"
	"time"

	"google.golang.org/protobuf/proto"

	gerrors "github.com/tochemey/goakt/v4/errors"
	"github.com/tochemey/goakt/v4/extension"
	"github.com/tochemey/goakt/v4/internal/address"
	"github.com/tochemey/goakt/v4/internal/cluster"
	"github.com/tochemey/goakt/v4/internal/internalpb"
	"github.com/tochemey/goakt/v4/internal/verifrt"
	"github.com/tochemey/goakt/v4/log"
	"github.com/tochemey/goakt/v4/passivation"
	"github.com/tochemey/goakt/v4/reentrancy"
	"github.com/tochemey/goakt/v4/remote"
	"github.com/tochemey/goakt/v4/supervisor"
)

// C37: spawn configuration survives the wire.
//
// Two started actor systems A and B with remoting on loopback. For every generated spawn
// configuration:
//   - relocation path: Spawn on A -> pid.toSerialize() -> proto.Marshal/Unmarshal ->
//     B.recreateActorFromWire (real wireSpawnOptions + Spawn; the registry is a stub
//     that knows no record) -> effective configuration of the re-created actor on B is
//     compared field by field with the original on A;
//   - remote-spawn path: A.Spawn(..., WithHostAndPort(B)) over the real TCP transport to
//     B's remoteSpawnHandler -> the actor found on B is compared with a twin spawned
//     locally on A with the same options.

type c37Actor struct{}

func (*c37Actor) PreStart(*Context) error { return nil }
func (*c37Actor) Receive(ctx *ReceiveContext) {
	switch ctx.Message().(type) {
	case *PostStart:
	default:
		ctx.Unhandled()
	}
}
func (*c37Actor) PostStop(*Context) error { return nil }

// two dependency kinds with different content shapes; the id travels in the payload
type c37DepA struct {
	IDv     string
	Payload []byte
}

func (d *c37DepA) ID() string                     { return d.IDv }
func (d *c37DepA) MarshalBinary() ([]byte, error) { return json.Marshal(d) }
func (d *c37DepA) UnmarshalBinary(b []byte) error { return json.Unmarshal(b, d) }

type c37DepB struct {
	IDv string
	N   int64
	S   string
}

func (d *c37DepB) ID() string                     { return d.IDv }
func (d *c37DepB) MarshalBinary() ([]byte, error) { return json.Marshal(d) }
func (d *c37DepB) UnmarshalBinary(b []byte) error { return json.Unmarshal(b, d) }

var (
	_ extension.Dependency = (*c37DepA)(nil)
	_ extension.Dependency = (*c37DepB)(nil)
)

// custom error types for directive rules (one value type, one pointer type)
type c37ErrA struct{}

func (c37ErrA) Error() string { return "c37 a" }

type c37ErrB struct{}

func (*c37ErrB) Error() string { return "c37 b" }

// c37Registry is the registry stub of system B for the relocation path: no record exists.
type c37Registry struct{ cluster.Cluster }

func (c37Registry) GetActor(context.Context, string) (*internalpb.Actor, error) {
	return nil, cluster.ErrActorNotFound
}
func (c37Registry) RemoveActor(context.Context, string) error         { return nil }
func (c37Registry) PutActor(context.Context, *internalpb.Actor) error { return nil }

// c37Config is one generated spawn configuration, kept as data so that it can be
// written out and rebuilt into fresh option values for every spawn.
type c37Config struct {
	HasSupervisor bool
	Strategy      int
	Rules         []c37Rule
	AnyError      int // -1 none, else directive
	HasRetry      bool
	MaxRetries    uint32
	RetryWindow   time.Duration
	HasBackoff    bool
	BackoffInit   time.Duration
	BackoffMax    time.Duration
	BackoffReset  time.Duration

	Passivation string // default | time | count | longlived
	PassTimeout time.Duration
	PassCount   int

	HasReentrancy bool
	ReentMode     int
	ReentMax      int

	Stash       bool
	Role        string
	Deps        []c37DepSpec
	InitTimeout time.Duration // 0 = not set
	NoRelocate  bool
}

type c37Rule struct {
	Err       int // index into c37Errs
	Directive int
}

type c37DepSpec struct {
	Kind string // A | B
	ID   string
	Data string
	N    int64
}

var c37Errs = []error{
	&gerrors.PanicError{}, &gerrors.InternalError{}, &gerrors.SpawnError{}, c37ErrA{}, &c37ErrB{},
	stderrors.New("plain"), context.DeadlineExceeded, gerrors.ErrDead,
}

var c37Directives = []supervisor.Directive{supervisor.StopDirective, supervisor.ResumeDirective, supervisor.RestartDirective, supervisor.EscalateDirective}

func c37Gen(rng *rand.Rand, idx int, live bool) *c37Config {
	c := &c37Config{AnyError: -1}
	if rng.Intn(5) != 0 {
		c.HasSupervisor = true
		c.Strategy = rng.Intn(2)
		for i, n := 0, rng.Intn(5); i < n; i++ {
			c.Rules = append(c.Rules, c37Rule{Err: rng.Intn(len(c37Errs)), Directive: rng.Intn(4)})
		}
		if rng.Intn(4) == 0 {
			c.AnyError = rng.Intn(4)
		}
		if rng.Intn(3) != 0 {
			c.HasRetry = true
			c.MaxRetries = []uint32{0, 1, 3, 10, math.MaxUint32}[rng.Intn(5)]
			c.RetryWindow = []time.Duration{-1, 0, 1, time.Millisecond, time.Second, 90 * time.Minute, math.MaxInt64}[rng.Intn(7)]
		}
		if rng.Intn(4) == 0 {
			c.HasBackoff = true
			c.BackoffInit = []time.Duration{time.Millisecond, time.Second}[rng.Intn(2)]
			c.BackoffMax = []time.Duration{0, 10 * time.Second}[rng.Intn(2)]
			c.BackoffReset = []time.Duration{0, time.Minute}[rng.Intn(2)]
		}
	}
	switch rng.Intn(5) {
	case 0:
		c.Passivation = "default"
	case 1, 2:
		c.Passivation = "time"
		if live {
			// a live actor must not passivate while it is being inspected
			// (deadline arithmetic on extreme values is not this property's business: a
			// threshold near MaxInt64 overflows in the passivation manager and stops the actor)
			c.PassTimeout = []time.Duration{time.Hour, 2*time.Hour + 1, 100000 * time.Hour, 36*time.Hour + 999}[rng.Intn(4)]
		} else {
			c.PassTimeout = []time.Duration{0, 1, -1, time.Millisecond, time.Hour, math.MaxInt64, math.MinInt64}[rng.Intn(7)]
		}
	case 3:
		c.Passivation = "count"
		if live {
			c.PassCount = []int{1000, 1 << 31, 1 << 40, 123456789}[rng.Intn(4)]
		} else {
			c.PassCount = []int{0, 1, 5, -3, 1 << 31, 1 << 40, math.MaxInt64}[rng.Intn(7)]
		}
	default:
		c.Passivation = "longlived"
	}
	if rng.Intn(2) == 0 {
		c.HasReentrancy = true
		c.ReentMode = rng.Intn(3)
		c.ReentMax = []int{0, 1, 7, 1000, math.MaxInt32, math.MaxUint32, -5}[rng.Intn(7)]
	}
	c.Stash = rng.Intn(2) == 0
	if rng.Intn(3) == 0 {
		c.Role = []string{"r1", "payments", "a b"}[rng.Intn(3)]
	}
	for i, n := 0, rng.Intn(4); i < n; i++ {
		d := c37DepSpec{Kind: []string{"A", "B"}[rng.Intn(2)], ID: fmt.Sprintf("dep-%d-%d", idx, i), N: rng.Int63() - rng.Int63()}
		d.Data = []string{"", "x", "héllo\x00wörld", strings.Repeat("z", 300)}[rng.Intn(4)]
		c.Deps = append(c.Deps, d)
	}
	if rng.Intn(3) == 0 {
		c.InitTimeout = []time.Duration{time.Second, 7 * time.Second, time.Hour, 1500 * time.Millisecond}[rng.Intn(4)]
	}
	c.NoRelocate = rng.Intn(5) == 0
	return c
}

func (c *c37Config) supervisor() *supervisor.Supervisor {
	if !c.HasSupervisor {
		return nil
	}
	opts := []supervisor.SupervisorOption{supervisor.WithStrategy(supervisor.Strategy(c.Strategy))}
	for _, r := range c.Rules {
		opts = append(opts, supervisor.WithDirective(c37Errs[r.Err], c37Directives[r.Directive]))
	}
	if c.AnyError >= 0 {
		opts = append(opts, supervisor.WithAnyErrorDirective(c37Directives[c.AnyError]))
	}
	if c.HasRetry {
		opts = append(opts, supervisor.WithRetry(c.MaxRetries, c.RetryWindow))
	}
	if c.HasBackoff {
		opts = append(opts, supervisor.WithExponentialBackoff(c.BackoffInit, c.BackoffMax, c.BackoffReset))
	}
	return supervisor.NewSupervisor(opts...)
}

func (c *c37Config) passivation() passivation.Strategy {
	switch c.Passivation {
	case "time":
		return passivation.NewTimeBasedStrategy(c.PassTimeout)
	case "count":
		return passivation.NewMessageCountBasedStrategy(c.PassCount)
	case "longlived":
		return passivation.NewLongLivedStrategy()
	}
	return nil
}

func (c *c37Config) reentrancy() *reentrancy.Reentrancy {
	if !c.HasReentrancy {
		return nil
	}
	return reentrancy.New(reentrancy.WithMode(reentrancy.Mode(c.ReentMode)), reentrancy.WithMaxInFlight(c.ReentMax))
}

func (c *c37Config) dependencies() []extension.Dependency {
	var out []extension.Dependency
	for _, d := range c.Deps {
		if d.Kind == "A" {
			out = append(out, &c37DepA{IDv: d.ID, Payload: []byte(d.Data)})
		} else {
			out = append(out, &c37DepB{IDv: d.ID, N: d.N, S: d.Data})
		}
	}
	return out
}

// options builds fresh option values; relocation decides whether the relocatable flag
// is part of the configuration under test (a relocated actor is relocatable by definition).
func (c *c37Config) options(withRelocationFlag bool) []SpawnOption {
	var opts []SpawnOption
	if s := c.supervisor(); s != nil {
		opts = append(opts, WithSupervisor(s))
	}
	if p := c.passivation(); p != nil {
		opts = append(opts, WithPassivationStrategy(p))
	}
	if r := c.reentrancy(); r != nil {
		opts = append(opts, WithReentrancy(r))
	}
	if c.Stash {
		opts = append(opts, WithStashing())
	}
	if c.Role != "" {
		opts = append(opts, WithRole(c.Role))
	}
	if d := c.dependencies(); len(d) > 0 {
		opts = append(opts, WithDependencies(d...))
	}
	if c.InitTimeout > 0 {
		opts = append(opts, WithInitTimeout(c.InitTimeout))
	}
	if withRelocationFlag && c.NoRelocate {
		opts = append(opts, WithRelocationDisabled())
	}
	return opts
}

// c37Snap is the effective configuration of a live actor, field by field.
type c37Snap struct {
	SupStrategy   string
	SupRules      []string
	SupAnyError   string
	SupMaxRetries uint32
	SupTimeout    int64
	SupBackoff    string
	Passivation   string
	Reentrancy    string
	Stash         bool
	Role          string
	Deps          []string
	InitTimeout   string
	Relocatable   bool
}

func c37Snapshot(pid *PID) c37Snap {
	var s c37Snap
	if sup := pid.supervisor; sup != nil {
		s.SupStrategy = sup.Strategy().String()
		for _, r := range sup.Rules() {
			s.SupRules = append(s.SupRules, r.ErrorType+"="+r.Directive.String())
		}
		sort.Strings(s.SupRules)
		if d, ok := sup.AnyErrorDirective(); ok {
			s.SupAnyError = d.String()
		} else {
			s.SupAnyError = "<none>"
		}
		s.SupMaxRetries = sup.MaxRetries()
		s.SupTimeout = int64(sup.Timeout())
		s.SupBackoff = fmt.Sprintf("initial=%d max=%d reset=%d", sup.InitialDelay(), sup.MaxDelay(), sup.BackoffResetAfter())
	} else {
		s.SupStrategy = "<nil supervisor>"
	}
	switch p := pid.PassivationStrategy().(type) {
	case *passivation.TimeBasedStrategy:
		s.Passivation = fmt.Sprintf("time:%d", p.Timeout())
	case *passivation.MessagesCountBasedStrategy:
		s.Passivation = fmt.Sprintf("count:%d", p.MaxMessages())
	case *passivation.LongLivedStrategy:
		s.Passivation = "longlived"
	case nil:
		s.Passivation = "<nil>"
	default:
		s.Passivation = fmt.Sprintf("%T", p)
	}
	if r := pid.reentrancy.Load(); r != nil {
		s.Reentrancy = fmt.Sprintf("mode=%d max=%d", r.getMode(), r.maxInFlight.Load())
	} else {
		s.Reentrancy = "<off: no state>"
	}
	s.Stash = pid.stashState != nil && pid.stashState.box != nil
	if role := pid.Role(); role != nil {
		s.Role = "role:" + *role
	} else {
		s.Role = "<nil>"
	}
	for _, d := range pid.Dependencies() {
		b, err := d.MarshalBinary()
		s.Deps = append(s.Deps, fmt.Sprintf("%s|%T|%s|%v", d.ID(), d, hex.EncodeToString(b), err))
	}
	sort.Strings(s.Deps)
	if o := pid.initTimeout.Load(); o != nil {
		s.InitTimeout = fmt.Sprintf("explicit:%d", *o)
	} else {
		s.InitTimeout = "<system default>"
	}
	s.Relocatable = pid.IsRelocatable()
	return s
}

// c37Diff returns the names of the fields that differ.
func c37Diff(a, b c37Snap, withRelocatable bool) []string {
	var out []string
	add := func(name string, same bool) {
		if !same {
			out = append(out, name)
		}
	}
	add("supervisor.strategy", a.SupStrategy == b.SupStrategy)
	add("supervisor.rules", strings.Join(a.SupRules, ";") == strings.Join(b.SupRules, ";"))
	add("supervisor.any_error", a.SupAnyError == b.SupAnyError)
	add("supervisor.max_retries", a.SupMaxRetries == b.SupMaxRetries)
	add("supervisor.retry_window", a.SupTimeout == b.SupTimeout)
	add("supervisor.backoff", a.SupBackoff == b.SupBackoff)
	add("passivation", a.Passivation == b.Passivation)
	add("reentrancy", a.Reentrancy == b.Reentrancy)
	add("stashing", a.Stash == b.Stash)
	add("role", a.Role == b.Role)
	add("dependencies", strings.Join(a.Deps, ";") == strings.Join(b.Deps, ";"))
	add("init_timeout", a.InitTimeout == b.InitTimeout)
	if withRelocatable {
		add("relocatable", a.Relocatable == b.Relocatable)
	}
	return out
}

func c37FreePort(t *testing.T) int {
	l, err := net.Listen("tcp", "127.0.0.1:0")
	if err != nil {
		t.Fatalf("free port: %v", err)
	}
	defer l.Close()
	return l.Addr().(*net.TCPAddr).Port
}

func c37StartSystem(t *testing.T) (*actorSystem, int) {
	for attempt := 0; ; attempt++ {
		port := c37FreePort(t)
		name := fmt.Sprintf("c37sys%d", vfSysCounter.Add(1))
		s, err := NewActorSystem(name, WithLogger(log.DiscardLogger), WithShutdownTimeout(30*time.Second), WithRemote(remote.NewConfig("127.0.0.1", port)))
		if err != nil {
			t.Fatalf("NewActorSystem: %v", err)
		}
		if err := s.Start(context.Background()); err != nil {
			if attempt < 5 {
				continue // the port may have been taken by another process in between
			}
			t.Fatalf("system Start: %v", err)
		}
		return s.(*actorSystem), port
	}
}

func TestVerif_C37(t *testing.T) {
	r := verifrt.Start(t, "C37")
	defer r.Finish()
	r.Rule("case = one generated spawn configuration (supervisor: strategy, 0-4 typed directive rules over 8 error types incl. custom ones, any-error directive, retry budget/window incl. 0, -1, max values, exponential backoff triple; passivation default/time/count/long-lived; reentrancy absent or 3 modes x max-in-flight; stashing; role; 0-3 dependencies of 2 types with binary content; explicit init timeout; relocation flag) run through (a) relocation: Spawn on A -> toSerialize -> proto.Marshal/Unmarshal -> B.recreateActorFromWire and (b) remote spawn A->B over TCP vs a local twin; oracle = field-by-field equality of the effective configuration read from the two live PIDs. non-trivial = configuration sets at least 4 of the 8 option groups; distinct by configuration text")
	r.Assume("both systems share the same system-wide defaults (default supervisor, passivation, init timeout), so an unset option must yield equal effective values; singleton and reliable-delivery settings are outside this check's domain; mailbox is not part of the wire contract")

	ctx := context.Background()
	sysA, _ := c37StartSystem(t)
	defer vfStop(sysA)
	sysB, portB := c37StartSystem(t)
	defer vfStop(sysB)
	sysB.cluster = c37Registry{} // only reached through recreateActorFromWire; clusterEnabled stays false
	for _, sys := range []*actorSystem{sysA, sysB} {
		if err := sys.Register(ctx, &c37Actor{}); err != nil {
			t.Fatalf("register actor: %v", err)
		}
		if err := sys.Inject(&c37DepA{}, &c37DepB{}); err != nil {
			t.Fatalf("inject: %v", err)
		}
	}
	departed := address.FormatHostPort(sysA.Host(), sysA.Port())
	rng := r.Rand(1)

	groups := func(c *c37Config) int {
		n := 0
		for _, b := range []bool{c.HasSupervisor, c.Passivation != "default", c.HasReentrancy, c.Stash, c.Role != "", len(c.Deps) > 0, c.InitTimeout > 0, c.HasBackoff || c.AnyError >= 0} {
			if b {
				n++
			}
		}
		return n
	}
	report := func(path string, c *c37Config, want, got c37Snap, fields []string) {
		for _, f := range fields {
			r.Violation("config-differs-after-wire:"+path+":"+f, map[string]any{"config": c, "original": want, "recreated": got, "all_differing_fields": fields})
		}
	}
	stop := func(p *PID) {
		if p != nil {
			_ = p.Shutdown(ctx)
		}
	}

	// ---- (a) relocation path ------------------------------------------------------------
	nReloc := r.N(1200, 60000)
	for i := 0; i < nReloc; i++ {
		c := c37Gen(rng, i, true)
		c.NoRelocate = false
		name := fmt.Sprintf("c37r-%d-%d", r.BatchSeed()&0xffff, i)
		orig, err := sysA.Spawn(ctx, name, &c37Actor{}, c.options(false)...)
		if err != nil {
			t.Fatalf("spawn original %v: %v", c, err)
		}
		props, err := orig.toSerialize()
		if err != nil {
			t.Fatalf("toSerialize: %v", err)
		}
		raw, err := proto.Marshal(props)
		if err != nil {
			t.Fatalf("marshal: %v", err)
		}
		wire := new(internalpb.Actor)
		if err := proto.Unmarshal(raw, wire); err != nil {
			t.Fatalf("unmarshal: %v", err)
		}
		want := c37Snapshot(orig)
		if err := sysB.recreateActorFromWire(ctx, wire, departed); err != nil {
			r.Violation("relocation-recreate-failed", map[string]any{"config": c, "error": err.Error()})
			stop(orig)
			r.Case("reloc/"+c37Key(c), groups(c) >= 4)
			continue
		}
		recreated, err := sysB.ActorOf(ctx, name)
		if err != nil || recreated == nil || !recreated.IsLocal() {
			r.Violation("relocation-recreated-actor-not-found", map[string]any{"config": c, "error": fmt.Sprint(err)})
			stop(orig)
			r.Case("reloc/"+c37Key(c), groups(c) >= 4)
			continue
		}
		got := c37Snapshot(recreated)
		if d := c37Diff(want, got, false); len(d) > 0 {
			report("relocation", c, want, got, d)
		}
		r.Count("relocation_cases", 1)
		r.Count("wire_bytes", int64(len(raw)))
		if c.HasBackoff {
			r.Count("cases_with_backoff", 1)
		}
		if i < 2 {
			r.Sample(map[string]any{"path": "relocation", "config": c, "original": want, "recreated": got})
		}
		stop(orig)
		stop(recreated)
		r.Case("reloc/"+c37Key(c), groups(c) >= 4)
	}

	// ---- (b) remote spawn over TCP --------------------------------------------------------
	nRemote := r.N(160, 6000)
	for i := 0; i < nRemote; i++ {
		c := c37Gen(rng, 1_000_000+i, true)
		name := fmt.Sprintf("c37s-%d-%d", r.BatchSeed()&0xffff, i)
		twin, err := sysA.Spawn(ctx, name+"-local", &c37Actor{}, c.options(true)...)
		if err != nil {
			t.Fatalf("spawn twin %v: %v", c, err)
		}
		rctx, cancel := context.WithTimeout(ctx, 60*time.Second)
		_, err = sysA.Spawn(rctx, name, &c37Actor{}, append(c.options(true), WithHostAndPort("127.0.0.1", portB))...)
		cancel()
		if err != nil {
			if stderrors.Is(err, context.DeadlineExceeded) {
				r.Inconclusive("remote spawn timed out after 60s (watchdog): %v", err)
			} else {
				r.Violation("remote-spawn-failed", map[string]any{"config": c, "error": err.Error()})
			}
			stop(twin)
			r.Case("remote/"+c37Key(c), groups(c) >= 4)
			continue
		}
		remotePID, err := sysB.ActorOf(ctx, name)
		if err != nil || remotePID == nil || !remotePID.IsLocal() {
			r.Violation("remote-spawned-actor-not-found-on-target", map[string]any{"config": c, "error": fmt.Sprint(err)})
			stop(twin)
			r.Case("remote/"+c37Key(c), groups(c) >= 4)
			continue
		}
		want, got := c37Snapshot(twin), c37Snapshot(remotePID)
		if d := c37Diff(want, got, true); len(d) > 0 {
			report("remote-spawn", c, want, got, d)
		}
		r.Count("remote_spawn_cases", 1)
		if i < 1 {
			r.Sample(map[string]any{"path": "remote-spawn", "config": c, "local_twin": want, "remote": got})
		}
		stop(twin)
		stop(remotePID)
		r.Case("remote/"+c37Key(c), groups(c) >= 4)
	}
}

func c37Key(c *c37Config) string {
	cp := *c
	cp.Deps = append([]c37DepSpec(nil), c.Deps...)
	for i := range cp.Deps {
		cp.Deps[i].ID = fmt.Sprintf("d%d", i) // ids are unique per case; not part of the identity
	}
	b, _ := json.Marshal(cp)
	return string(b)
}
