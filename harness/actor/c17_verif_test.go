//go:build verif

package actor

import (
	"context"
	"fmt"
	"math/rand"
	"strings"
	"runtime"
	"sync"
	"sync/atomic"
	"testing"
	"time"

	"github.com/tochemey/goakt/v4/internal/verifrt"
	"github.com/tochemey/goakt/v4/passivation"
	"github.com/tochemey/goakt/v4/reentrancy"
)

// C17: ActorSystem.Stop tears down every actor exactly once, children before
// parents, deactivates every active grain exactly once, and no user handler runs
// after Stop has returned.
//
// One case = one fresh system with a random actor tree and grain population,
// sender goroutines telling / asking random targets while Stop runs. Everything
// the user code sees is appended to one totally ordered event log; the harness
// appends a barrier event immediately after Stop returns.

type c17Event struct {
	Seq  int
	Kind string // recv-enter recv-exit poststop-enter poststop-exit grain-activate grain-recv-enter grain-recv-exit grain-deact-enter grain-deact-exit stop-called barrier
	Who  int    // actor index, or grain index
	Tok  int64  // handler invocation token / grain activation token
}

type c17Log struct {
	mu     sync.Mutex
	events []c17Event
	tok    atomic.Int64
}

func (l *c17Log) add(kind string, who int, tok int64) int {
	l.mu.Lock()
	seq := len(l.events) + 1
	l.events = append(l.events, c17Event{Seq: seq, Kind: kind, Who: who, Tok: tok})
	l.mu.Unlock()
	return seq
}

func (l *c17Log) snapshot() []c17Event {
	l.mu.Lock()
	defer l.mu.Unlock()
	return append([]c17Event(nil), l.events...)
}

type c17Case struct {
	stopClaimed atomic.Bool // set by whoever is going to call Stop (the chosen actor or the harness)
	id        int64
	log       *c17Log
	inflight  atomic.Int64
	stopped   atomic.Bool // barrier passed
	stopErr   atomic.Value
	stopDone  chan struct{}
	dwellMax  time.Duration
}

type c17Msg struct {
	ID        int64
	Dwell     time.Duration
	Ask       bool
	SelfStop  bool // the handler calls ctx.Shutdown()
	StopChild *PID // the handler stops this child of its actor
}

type c17StopCmd struct{}

type c17Actor struct {
	cs       *c17Case
	idx      int
	slowStop time.Duration // idle (passivating) actors: PostStop takes this long
}

func (a *c17Actor) PreStart(*Context) error { return nil }

func (a *c17Actor) PostStop(*Context) error {
	a.cs.log.add("poststop-enter", a.idx, 0)
	if a.slowStop > 0 {
		time.Sleep(a.slowStop)
	}
	for i := 0; i < a.idx%7; i++ {
		// a little work so that ordering windows are not empty
		time.Sleep(10 * time.Microsecond)
	}
	a.cs.log.add("poststop-exit", a.idx, 0)
	return nil
}

func (a *c17Actor) Receive(ctx *ReceiveContext) {
	switch m := ctx.Message().(type) {
	case *c17Msg:
		cs := a.cs
		tok := cs.log.tok.Add(1)
		cs.inflight.Add(1)
		cs.log.add("recv-enter", a.idx, tok)
		if m.Dwell > 0 {
			time.Sleep(m.Dwell)
		}
		if m.Ask {
			ctx.Response(m)
		}
		if m.StopChild != nil {
			_ = ctx.Self().Stop(context.Background(), m.StopChild)
		}
		if m.SelfStop {
			ctx.Shutdown()
		}
		cs.log.add("recv-exit", a.idx, tok)
		cs.inflight.Add(-1)
	case *c17StopCmd:
		// Stop called from inside a handler; this invocation is the caller and is not judged
		cs := a.cs
		if !cs.stopClaimed.CompareAndSwap(false, true) {
			return // the harness already fell back to an external Stop
		}
		cs.log.add("stop-called", a.idx, 0)
		sctx, cancel := context.WithTimeout(context.Background(), 60*time.Second)
		err := ctx.ActorSystem().Stop(sctx)
		cancel()
		cs.log.add("barrier", a.idx, 0)
		cs.stopped.Store(true)
		if err != nil {
			cs.stopErr.Store(err.Error())
		}
		close(cs.stopDone)
	}
}

// grains: instances are created as zero values by the runtime; the ledger is found by name
var c17Grains sync.Map // grain name -> *c17GrainRef

type c17GrainRef struct {
	cs   *c17Case
	idx  int
	slow time.Duration // idle (self-deactivating) grains: OnDeactivate takes this long
}

type C17Grain struct {
	ref *c17GrainRef
	tok int64
}

func (g *C17Grain) OnActivate(_ context.Context, props *GrainProps) error {
	v, ok := c17Grains.Load(props.Identity().Name())
	if !ok {
		return fmt.Errorf("c17: unknown grain %s", props.Identity().Name())
	}
	g.ref = v.(*c17GrainRef)
	g.tok = g.ref.cs.log.tok.Add(1)
	g.ref.cs.log.add("grain-activate", g.ref.idx, g.tok)
	return nil
}

func (g *C17Grain) OnReceive(gctx *GrainContext) {
	m, ok := gctx.Message().(*c17Msg)
	if !ok {
		gctx.Unhandled()
		return
	}
	cs := g.ref.cs
	tok := cs.log.tok.Add(1)
	cs.inflight.Add(1)
	cs.log.add("grain-recv-enter", g.ref.idx, tok)
	if m.Dwell > 0 {
		time.Sleep(m.Dwell)
	}
	cs.log.add("grain-recv-exit", g.ref.idx, tok)
	cs.inflight.Add(-1)
	if m.Ask {
		gctx.Response(m)
	} else {
		gctx.NoErr()
	}
}

func (g *C17Grain) OnDeactivate(context.Context, *GrainProps) error {
	g.ref.cs.log.add("grain-deact-enter", g.ref.idx, g.tok)
	if g.ref.slow > 0 {
		time.Sleep(g.ref.slow)
	}
	g.ref.cs.log.add("grain-deact-exit", g.ref.idx, g.tok)
	return nil
}

type c17Knobs struct {
	Actors    int
	Depth     int
	Grains    int
	Senders   int
	DwellUS   int
	PreStop   int  // subtrees stopped (quiescently) before Stop
	FromActor bool // Stop called from inside a handler
	Activate  bool // a sender keeps activating fresh grains while Stop runs
	StopTraffic bool // PoisonPill / ctx.Shutdown() / Stop(child) aimed at tree actors around the Stop call
	Noise     int
	Idle      int // extra actors and grains nobody sends to, with an idle timeout aimed at the Stop call and slow PostStop / OnDeactivate
}

func (k c17Knobs) String() string {
	return fmt.Sprintf("actors=%d depth=%d grains=%d senders=%d dwell=%dus prestop=%d fromactor=%v activate=%v stoptraffic=%v noise=%d idle=%d", k.Actors, k.Depth, k.Grains, k.Senders, k.DwellUS, k.PreStop, k.FromActor, k.Activate, k.StopTraffic, k.Noise, k.Idle)
}

func c17GenKnobs(rng *rand.Rand) c17Knobs {
	return c17Knobs{
		Actors:    1 + rng.Intn(30),
		Depth:     1 + rng.Intn(4),
		Grains:    rng.Intn(21),
		Senders:   2 + rng.Intn(7),
		DwellUS:   []int{0, 50, 500, 5000, 30000}[rng.Intn(5)],
		PreStop:   rng.Intn(3),
		FromActor: rng.Intn(4) == 0,
		Activate:  rng.Intn(3) == 0,
		StopTraffic: rng.Intn(3) != 0,
		Noise:     rng.Intn(3),
		Idle:      []int{0, 0, 2, 4}[rng.Intn(4)],
	}
}

var c17CaseCounter atomic.Int64

// c17WhereStopBlocked names the innermost goakt function below actorSystem.shutdown
// on the goroutine that is still inside ActorSystem.Stop.
func c17WhereStopBlocked() string {
	buf := make([]byte, 16<<20)
	n := runtime.Stack(buf, true)
	for _, g := range strings.Split(string(buf[:n]), "\n\n") {
		if !strings.Contains(g, "(*actorSystem).shutdown(") {
			continue
		}
		for _, ln := range strings.Split(g, "\n") {
			if strings.HasPrefix(ln, "github.com/tochemey/goakt/v4/actor.") {
				fn := strings.TrimPrefix(ln, "github.com/tochemey/goakt/v4/actor.")
				recv := ""
				if strings.HasPrefix(fn, "(") { // method: (*T).name(args)
					if j := strings.Index(fn, ")."); j > 0 {
						recv, fn = fn[:j+2], fn[j+2:]
					}
				}
				if i := strings.IndexByte(fn, '('); i > 0 {
					fn = fn[:i]
				}
				return recv + fn
			}
		}
	}
	return "unknown"
}

type c17Obs struct {
	Actors       int
	Grains       int
	Handled      int
	DuringStop   int // handler invocations entered between stop-called and barrier
	Activations  int
	PostStops    int
	StopErr      string
	SendsAfter   int
	Viol         []verifrt.Violation
	Inconc       string
	NonTrivial   bool
	HotSites     []string
	StopDur      time.Duration
	StartDur     time.Duration
	StopTraffic  int
	Fatal        bool // the batch cannot go on (a system is stuck inside Stop)
}

func c17RunCase(t *testing.T, k c17Knobs, seed int64) (obs c17Obs) {
	ctx := context.Background()
	rng := rand.New(rand.NewSource(seed))
	cs := &c17Case{id: c17CaseCounter.Add(1), log: &c17Log{}, stopDone: make(chan struct{}), dwellMax: time.Duration(k.DwellUS) * time.Microsecond}
	t0 := time.Now()
	sys := vfNewSystem(t)
	obs.StartDur = time.Since(t0)
	stoppedSystem := false
	defer func() {
		if !stoppedSystem {
			vfStop(sys)
		}
	}()

	// tree
	type node struct {
		pid      *PID
		parent   int
		depth    int
		prestop  bool // stopped before Stop (itself or an ancestor)
	}
	nodes := make([]*node, 0, k.Actors)
	for i := 0; i < k.Actors; i++ {
		parent := -1
		if i > 0 && rng.Intn(3) != 0 {
			// pick a parent that keeps the depth bound
			for try := 0; try < 8; try++ {
				c := rng.Intn(i)
				if nodes[c].depth < k.Depth {
					parent = c
					break
				}
			}
		}
		a := &c17Actor{cs: cs, idx: i}
		name := fmt.Sprintf("c17-%d-a%d", cs.id, i)
		var pid *PID
		var err error
		d := 1
		if parent < 0 {
			pid, err = sys.Spawn(ctx, name, a, WithLongLived())
		} else {
			pid, err = nodes[parent].pid.SpawnChild(ctx, name, a, WithLongLived())
			d = nodes[parent].depth + 1
		}
		if err != nil {
			t.Fatalf("c17 spawn: %v", err)
		}
		nodes = append(nodes, &node{pid: pid, parent: parent, depth: d})
	}
	obs.Actors = len(nodes)

	// grains
	var idents []*GrainIdentity
	newGrain := func(idx int) (*GrainIdentity, error) {
		name := fmt.Sprintf("c17g-%d-%d", cs.id, idx)
		c17Grains.Store(name, &c17GrainRef{cs: cs, idx: idx})
		var opts []GrainOption
		switch idx % 3 {
		case 1:
			opts = append(opts, WithGrainReentrancy(reentrancy.New(reentrancy.WithMode(reentrancy.AllowAll))))
		case 2:
			opts = append(opts, WithGrainReentrancy(reentrancy.New(reentrancy.WithMode(reentrancy.StashNonReentrant))))
		}
		return sys.GrainIdentity(ctx, name, func(context.Context) (Grain, error) { return &C17Grain{}, nil }, opts...)
	}
	for g := 0; g < k.Grains; g++ {
		id, err := newGrain(g)
		if err != nil {
			t.Fatalf("c17 grain: %v", err)
		}
		idents = append(idents, id)
	}
	obs.Grains = len(idents)
	defer func() {
		c17Grains.Range(func(key, v any) bool {
			if v.(*c17GrainRef).cs == cs {
				c17Grains.Delete(key)
			}
			return true
		})
	}()

	// quiescent explicit stops before the system stop
	for i := 0; i < k.PreStop && len(nodes) > 2; i++ {
		v := 1 + rng.Intn(len(nodes)-1)
		if nodes[v].prestop {
			continue
		}
		if err := nodes[v].pid.Shutdown(ctx); err != nil {
			t.Fatalf("c17 pre-stop: %v", err)
		}
		for j := range nodes {
			for p := j; p >= 0; p = nodes[p].parent {
				if p == v {
					nodes[j].prestop = true
					break
				}
			}
		}
	}

	// idle actors and grains: nobody sends to them; their idle timeout is aimed at the
	// moment Stop is called and their PostStop / OnDeactivate is slow, so that an idle
	// passivation is inside the user hook while the system is being stopped
	nTargets := len(nodes)
	for j := 0; j < k.Idle; j++ {
		idle := time.Duration(2+rng.Intn(14)) * time.Millisecond
		slow := time.Duration(5+rng.Intn(40)) * time.Millisecond
		if j%2 == 0 {
			i := len(nodes)
			a := &c17Actor{cs: cs, idx: i, slowStop: slow}
			name := fmt.Sprintf("c17-%d-idle%d", cs.id, i)
			parent := -1
			var pid *PID
			var err error
			if p := rng.Intn(nTargets); rng.Intn(2) == 0 && !nodes[p].prestop {
				parent = p
				pid, err = nodes[p].pid.SpawnChild(ctx, name, a, WithPassivationStrategy(passivation.NewTimeBasedStrategy(idle)))
			} else {
				pid, err = sys.Spawn(ctx, name, a, WithPassivationStrategy(passivation.NewTimeBasedStrategy(idle)))
			}
			if err != nil {
				t.Fatalf("c17 spawn idle: %v", err)
			}
			d := 1
			if parent >= 0 {
				d = nodes[parent].depth + 1
			}
			nodes = append(nodes, &node{pid: pid, parent: parent, depth: d})
		} else {
			idx := k.Grains + 1000 + j
			name := fmt.Sprintf("c17g-%d-%d", cs.id, idx)
			c17Grains.Store(name, &c17GrainRef{cs: cs, idx: idx, slow: slow})
			if _, err := sys.GrainIdentity(ctx, name, func(context.Context) (Grain, error) { return &C17Grain{}, nil }, WithGrainDeactivateAfter(idle)); err != nil {
				t.Fatalf("c17 idle grain: %v", err)
			}
		}
	}
	obs.Actors = len(nodes)

	if k.Noise > 0 {
		obs.HotSites = verifrt.StartNoise(verifrt.NoiseConfig{
			Seed: seed, GoschedPerMille: 20, HotSites: k.Noise,
			Candidates:  vfNoiseSites("actor/pid.go:15", "actor/pid.go:24", "actor/pid.go:25", "actor/pid.go:26", "actor/pid.go:19", "grain_pid.go", "pid_tree.go", "dispatch_state.go", "worker.go"),
			HotPerMille: 400, MinDelay: 20 * time.Microsecond, MaxDelay: 1 * time.Millisecond, Budget: 100,
		})
	}

	// senders
	var sendersWG sync.WaitGroup
	stopSenders := make(chan struct{})
	var msgID atomic.Int64
	var afterAccepted atomic.Int64
	var afterWitness atomic.Value
	var afterTarget atomic.Int64
	afterTarget.Store(-1)
	var sendsAfter atomic.Int64
	nextFresh := atomic.Int64{}
	nextFresh.Store(int64(k.Grains))
	for s := 0; s < k.Senders; s++ {
		sendersWG.Add(1)
		srng := rand.New(rand.NewSource(seed + int64(s)*7919))
		activator := k.Activate && s == 0
		go func() {
			defer sendersWG.Done()
			defer func() { _ = recover() }()
			for {
				select {
				case <-stopSenders:
					return
				default:
				}
				after := cs.stopped.Load()
				dwell := time.Duration(0)
				if cs.dwellMax > 0 && srng.Intn(4) == 0 {
					dwell = time.Duration(srng.Int63n(int64(cs.dwellMax)) + 1)
				}
				m := &c17Msg{ID: msgID.Add(1), Dwell: dwell}
				var err error
				what := ""
				target := -1 // index of the tree actor addressed (-1: a grain)
				switch c := srng.Intn(10); {
				case activator && c < 3:
					idx := int(nextFresh.Add(1))
					if idx > k.Grains+400 {
						continue
					}
					what = "GrainIdentity"
					_, err = newGrain(idx)
					if err == nil {
						cs.log.add("grain-identity-returned", idx, 0)
					}
				case c < 6 || len(idents) == 0:
					ti := srng.Intn(nTargets)
					target = ti
					n := nodes[ti]
					if srng.Intn(5) == 0 {
						m.Ask = true
						what = "Ask"
						_, err = Ask(ctx, n.pid, m, 100*time.Millisecond)
					} else {
						what = "Tell"
						err = Tell(ctx, n.pid, m)
					}
				default:
					id := idents[srng.Intn(len(idents))]
					if srng.Intn(4) == 0 {
						m.Ask = true
						what = "AskGrain"
						_, err = sys.AskGrain(ctx, id, m, 100*time.Millisecond)
					} else {
						what = "TellGrain"
						tctx, cancel := context.WithTimeout(ctx, 200*time.Millisecond)
						err = sys.TellGrain(tctx, id, m)
						cancel()
					}
				}
				if after {
					sendsAfter.Add(1)
					if err == nil {
						afterAccepted.Add(1)
						afterWitness.Store(what)
						afterTarget.Store(int64(target))
					}
					time.Sleep(200 * time.Microsecond)
				}
			}
		}()
	}

	// let traffic flow, then stop
	time.Sleep(time.Duration(2+rng.Intn(8)) * time.Millisecond)

	// stop traffic: shortly before and while Stop runs, tree actors get a PoisonPill queued
	// behind a busy handler, a message whose handler calls ctx.Shutdown(), or a message
	// that makes their parent stop them
	stopTargeted := make([]atomic.Bool, len(nodes))
	var stopTrafficWG sync.WaitGroup
	var stopTrafficSent atomic.Int64
	if k.StopTraffic {
		for g := 0; g < 2; g++ {
			stopTrafficWG.Add(1)
			trng := rand.New(rand.NewSource(seed ^ int64(0x5bd1e995*(g+1))))
			go func() {
				defer stopTrafficWG.Done()
				defer func() { _ = recover() }()
				for i := 0; i < 400 && !cs.stopped.Load(); i++ {
					v := trng.Intn(nTargets)
					n := nodes[v]
					if n.prestop {
						continue
					}
					busy := time.Duration(200+trng.Intn(3000)) * time.Microsecond
					switch trng.Intn(3) {
					case 0:
						if Tell(ctx, n.pid, &c17Msg{ID: msgID.Add(1), Dwell: busy}) == nil {
							if Tell(ctx, n.pid, new(PoisonPill)) == nil {
								stopTargeted[v].Store(true)
								stopTrafficSent.Add(1)
							}
						}
					case 1:
						if Tell(ctx, n.pid, &c17Msg{ID: msgID.Add(1), Dwell: busy / 4, SelfStop: true}) == nil {
							stopTargeted[v].Store(true)
							stopTrafficSent.Add(1)
						}
					default:
						if n.parent >= 0 {
							if Tell(ctx, nodes[n.parent].pid, &c17Msg{ID: msgID.Add(1), Dwell: busy / 4, StopChild: n.pid}) == nil {
								stopTargeted[v].Store(true)
								stopTrafficSent.Add(1)
							}
						}
					}
					time.Sleep(time.Duration(50+trng.Intn(600)) * time.Microsecond)
				}
			}()
		}
		time.Sleep(time.Duration(200+rng.Intn(1500)) * time.Microsecond)
	}
	caller := -1
	if k.FromActor {
		// an actor that is still running
		for try := 0; try < 20 && caller < 0; try++ {
			c := rng.Intn(nTargets)
			if !nodes[c].prestop {
				caller = c
			}
		}
	}
	if caller >= 0 {
		if err := Tell(ctx, nodes[caller].pid, new(c17StopCmd)); err != nil {
			caller = -1
		}
	}
	if caller >= 0 {
		// the chosen caller may be stopped by the stop traffic before it handles the
		// command (the command is then dropped with the actor): once the caller is
		// seen not running with the command still unclaimed, Stop is called from
		// outside instead
		pid := nodes[caller].pid
		verifrt.WaitUntil(20*time.Second, func() bool { return cs.stopClaimed.Load() || !pid.IsRunning() })
		if !cs.stopClaimed.Load() && cs.stopClaimed.CompareAndSwap(false, true) {
			caller = -1
		}
	} else {
		cs.stopClaimed.Store(true)
	}
	if caller < 0 {
		cs.log.add("stop-called", -1, 0)
		go func() {
			sctx, cancel := context.WithTimeout(ctx, 60*time.Second)
			ts := time.Now()
			err := sys.Stop(sctx)
			obs.StopDur = time.Since(ts)
			cancel()
			cs.log.add("barrier", -1, 0)
			cs.stopped.Store(true)
			if err != nil {
				cs.stopErr.Store(err.Error())
			}
			close(cs.stopDone)
		}()
	}
	select {
	case <-cs.stopDone:
	case <-time.After(240 * time.Second):
		// Stop carries a 60 s context and the system a 30 s shutdown timeout: not
		// having returned after four times that is a Stop that never returns
		where := c17WhereStopBlocked()
		obs.Viol = append(obs.Viol, verifrt.Violation{Sig: "stop-never-returned:blocked-in:" + where, Detail: map[string]any{
			"knobs": k.String(), "seed": seed, "waited": "240s (Stop context 60s, shutdown timeout 30s)", "hot_sites": obs.HotSites}})
		obs.Fatal = true
		stoppedSystem = true // do not call Stop a second time from the deferred clean-up
		close(stopSenders)
		return obs
	}
	stoppedSystem = true
	inflightAtBarrier := cs.inflight.Load()

	// after the barrier: keep sending for a while (must be refused), let stragglers show up
	time.Sleep(30 * time.Millisecond)
	drained := verifrt.WaitUntil(20*time.Second, func() bool { return cs.inflight.Load() == 0 })
	time.Sleep(20 * time.Millisecond)
	close(stopSenders)
	sendersWG.Wait()
	stopTrafficWG.Wait()
	obs.StopTraffic = int(stopTrafficSent.Load())
	if k.Noise > 0 {
		verifrt.StopNoise()
	}
	if e, ok := cs.stopErr.Load().(string); ok {
		obs.StopErr = e
	}
	obs.SendsAfter = int(sendsAfter.Load())

	// ---- judge
	events := cs.log.snapshot()
	viol := func(sig string, detail map[string]any) {
		detail["knobs"] = k.String()
		detail["seed"] = seed
		detail["stop_error"] = obs.StopErr
		detail["hot_sites"] = obs.HotSites
		obs.Viol = append(obs.Viol, verifrt.Violation{Sig: sig, Detail: detail})
	}
	barrier, stopCalled := 0, 0
	for _, e := range events {
		switch e.Kind {
		case "barrier":
			barrier = e.Seq
		case "stop-called":
			stopCalled = e.Seq
		}
	}
	psEnter := map[int][]int{}
	psExit := map[int][]int{}
	type inv struct {
		who, enter, exit int
		grain            bool
	}
	invs := map[int64]*inv{}
	type act struct{ idx, activate, deactEnter, deactExit, deacts int }
	acts := map[int64]*act{}
	identityReturned := map[int]int{} // fresh grain index -> seq at which GrainIdentity returned nil
	for _, e := range events {
		switch e.Kind {
		case "poststop-enter":
			psEnter[e.Who] = append(psEnter[e.Who], e.Seq)
			obs.PostStops++
		case "poststop-exit":
			psExit[e.Who] = append(psExit[e.Who], e.Seq)
		case "recv-enter", "grain-recv-enter":
			invs[e.Tok] = &inv{who: e.Who, enter: e.Seq, grain: e.Kind == "grain-recv-enter"}
			obs.Handled++
			if e.Seq > stopCalled && e.Seq < barrier {
				obs.DuringStop++
			}
		case "recv-exit", "grain-recv-exit":
			if v := invs[e.Tok]; v != nil {
				v.exit = e.Seq
			}
		case "grain-identity-returned":
			identityReturned[e.Who] = e.Seq
		case "grain-activate":
			acts[e.Tok] = &act{idx: e.Who, activate: e.Seq}
			obs.Activations++
		case "grain-deact-enter":
			if a := acts[e.Tok]; a != nil {
				a.deacts++
				a.deactEnter = e.Seq
			}
		case "grain-deact-exit":
			if a := acts[e.Tok]; a != nil {
				a.deactExit = e.Seq
			}
		}
	}
	// an actor that stop traffic aimed at (PoisonPill / ctx.Shutdown / Stop(child)) is
	// "stopping on its own"; its descendants are stopped by that same flow
	ownStop := func(i int) string {
		if i < 0 || i >= len(nodes) {
			return ""
		}
		if stopTargeted[i].Load() {
			return ":actor-stopping-on-its-own"
		}
		for p := nodes[i].parent; p >= 0; p = nodes[p].parent {
			if stopTargeted[p].Load() {
				return ":ancestor-stopping-on-its-own"
			}
		}
		return ""
	}
	// 1. PostStop exactly once for every user actor
	for i, n := range nodes {
		if c := len(psEnter[i]); c != 1 {
			q := ""
			if c == 0 {
				q = ownStop(i)
			}
			viol(fmt.Sprintf("poststop-count:%d", c)+q, map[string]any{"actor": i, "stopped_before_system_stop": n.prestop, "targeted_by_stop_traffic": stopTargeted[i].Load(), "poststop_enter_seqs": psEnter[i], "stop_called_seq": stopCalled, "barrier_seq": barrier})
			break
		}
	}
	// 2. children before parents (for actors torn down by Stop)
	for i, n := range nodes {
		if n.parent < 0 || n.prestop || len(psExit[i]) != 1 || len(psEnter[n.parent]) != 1 {
			continue
		}
		if psExit[i][0] > psEnter[n.parent][0] {
			sig := "parent-poststop-before-child"
			if stopTargeted[i].Load() || i >= nTargets {
				// the child was (also) being stopped by its own PoisonPill / ctx.Shutdown() /
				// Stop(child), or (idle actors) by its own idle passivation: whoever stops
				// the parent skips such a child without waiting for it
				sig += ":child-stopping-on-its-own"
			}
			viol(sig, map[string]any{"child": i, "parent": n.parent, "child_poststop_exit_seq": psExit[i][0], "parent_poststop_enter_seq": psEnter[n.parent][0]})
			break
		}
	}
	// 3. PostStop not after Stop returned
	for i := range nodes {
		for _, s := range psExit[i] {
			if s > barrier {
				sig := "poststop-after-stop-returned" + ownStop(i)
				viol(sig, map[string]any{"actor": i, "targeted_by_stop_traffic": stopTargeted[i].Load(), "poststop_exit_seq": s, "barrier_seq": barrier})
				break
			}
		}
	}
	// 4. grains: every activation deactivated exactly once (when Stop returned nil)
	if obs.StopErr == "" {
		for tok, a := range acts {
			if a.deacts != 1 {
				kind := "active-before-stop"
				if ret, fresh := identityReturned[a.idx]; a.idx >= k.Grains && a.activate < stopCalled && (!fresh || ret > stopCalled) {
					// OnActivate ran before Stop was called, but the GrainIdentity call that
					// activated it had not returned yet
					kind = "activation-in-flight-at-stop-call"
				}
				if a.activate > barrier {
					kind = "activated-after-stop-returned"
				} else if a.activate > stopCalled {
					kind = "activated-during-stop"
				}
				viol(fmt.Sprintf("grain-deactivate-count:%d:%s", a.deacts, kind), map[string]any{"grain": a.idx, "activation_token": tok, "activate_seq": a.activate, "stop_called_seq": stopCalled, "barrier_seq": barrier})
				break
			}
			if a.deactExit > barrier {
				viol("grain-deactivate-after-stop-returned", map[string]any{"grain": a.idx, "deactivate_exit_seq": a.deactExit, "barrier_seq": barrier})
				break
			}
		}
	}
	// 5. no handler after the barrier
	entered, running := 0, 0
	for tok, v := range invs {
		if v.enter > barrier {
			if entered == 0 {
				viol("handler-entered-after-stop-returned", map[string]any{"who": v.who, "grain": v.grain, "token": tok, "enter_seq": v.enter, "barrier_seq": barrier})
			}
			entered++
		} else if v.exit == 0 || v.exit > barrier {
			if running == 0 {
				viol("handler-running-after-stop-returned", map[string]any{"who": v.who, "grain": v.grain, "token": tok, "enter_seq": v.enter, "exit_seq": v.exit, "barrier_seq": barrier, "inflight_at_barrier": inflightAtBarrier, "poststop_enter_seqs_of_that_actor": psEnter[v.who]})
			}
			running++
		}
	}
	if !drained {
		obs.Inconc = "handlers still in flight 20s after Stop returned"
	}
	// 6. sends issued after the barrier must fail
	if n := afterAccepted.Load(); n > 0 {
		w, _ := afterWitness.Load().(string)
		ti := int(afterTarget.Load())
		viol("send-accepted-after-stop-returned:"+w+ownStop(ti), map[string]any{"accepted": n, "sends_after_barrier": obs.SendsAfter, "target_actor": ti})
	}
	obs.NonTrivial = obs.DuringStop > 0 && obs.Actors > 1
	return obs
}

func TestVerif_C17(t *testing.T) {
	r := verifrt.Start(t, "C17")
	defer r.Finish()
	r.Rule("case = fresh system with a random actor tree (1-30 actors, depth <= 4, 0-2 subtrees stopped quiescently beforehand), 0-20 grains (no / AllowAll / StashNonReentrant reentrancy), 2-8 sender goroutines doing Tell / Ask / TellGrain / AskGrain (and, in some cases, activating fresh grains) on random targets while Stop runs and after it returned, handler dwell up to 30ms, in two thirds of the cases stop traffic aimed at random tree actors from shortly before the Stop call until it returns (a PoisonPill queued behind a busy handler, a message whose handler calls ctx.Shutdown(), a message that makes the parent Stop(child)), Stop called from an external goroutine or from inside an actor's handler, schedule noise in the stop path. Oracle over one totally ordered event log with a barrier appended right after Stop returns: PostStop count == 1 for every user actor; a child's PostStop exit precedes its parent's PostStop entry; no PostStop / OnDeactivate after the barrier; every grain activation has exactly one OnDeactivate when Stop returned nil; no handler invocation entered after the barrier or still running at the barrier (the invocation that called Stop excepted); every send issued after the barrier returns an error. non-trivial = handlers were entered between the Stop call and the barrier and the tree has more than one actor; distinct by knob tuple and seed")
	rng := r.Rand(17)
	n := r.N(48, 1600)
	for i := 0; i < n; i++ {
		k := c17GenKnobs(rng)
		seed := rng.Int63()
		obs := c17RunCase(t, k, seed)
		r.Case(k.String()+"/"+verifrt.Hash64s(seed), obs.NonTrivial)
		r.Count("actors", int64(obs.Actors))
		r.Count("grains", int64(obs.Grains))
		r.Count("grain_activations", int64(obs.Activations))
		r.Count("poststops", int64(obs.PostStops))
		r.Count("handler_invocations", int64(obs.Handled))
		r.Count("handler_invocations_entered_during_stop", int64(obs.DuringStop))
		r.Count("sends_issued_after_stop_returned", int64(obs.SendsAfter))
		r.Count("stop_traffic_messages_accepted", int64(obs.StopTraffic))
		r.Max("max_stop_duration_ms", int64(obs.StopDur/time.Millisecond))
		r.Count("sum_stop_duration_ms", int64(obs.StopDur/time.Millisecond))
		r.Count("sum_start_duration_ms", int64(obs.StartDur/time.Millisecond))
		if obs.StopDur > 2*time.Second {
			r.Note("Stop took %s (%s)", obs.StopDur, k.String())
		}
		if obs.StopErr != "" {
			r.Count("stop_returned_error", 1)
			r.Note("Stop returned: %s (%s)", obs.StopErr, k.String())
		}
		for _, v := range obs.Viol {
			r.Violation(v.Sig, v.Detail)
		}
		if obs.Inconc != "" {
			r.Inconclusive("%s (%s)", obs.Inconc, k.String())
		}
		if obs.Fatal {
			break // a system stuck inside Stop keeps spinning: nothing more is judged in this batch
		}
		if i < 5 {
			r.Sample(map[string]any{"knobs": k.String(), "handled": obs.Handled, "during_stop": obs.DuringStop, "poststops": obs.PostStops, "activations": obs.Activations, "sends_after": obs.SendsAfter, "stop_err": obs.StopErr})
		}
	}
}
