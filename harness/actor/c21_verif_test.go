//go:build verif

package actor

import (
	"context"
	"encoding/binary"
	"fmt"
	"math"
	"math/rand"
	"runtime"
	"sort"
	"strings"
	"sync"
	"sync/atomic"
	"testing"
	"time"

	"github.com/tochemey/goakt/v4/hash"
	"github.com/tochemey/goakt/v4/internal/verifrt"
	"github.com/tochemey/goakt/v4/log"
)

// C21 — routers distribute according to their strategy.
//
// Real router actors (SpawnRouter) with harness routees on a local actor system.
// Every routed message carries a unique id and the case's ledger; routees log
// (routee name, id). Completion is decided structurally: the router answers a
// GetRoutees request enqueued after the last broadcast (so it has routed them
// all), no fan-out sender goroutine is alive any more, and every routee answers a
// ping enqueued after that (FIFO mailboxes): whatever is not in the ledger then
// is lost, not late.

type c21Ledger struct {
	mu   sync.Mutex
	seen map[int][]string // message id -> routees that handled it (in handling order)
}

func (l *c21Ledger) record(routee string, id int) {
	l.mu.Lock()
	l.seen[id] = append(l.seen[id], routee)
	l.mu.Unlock()
}

func (l *c21Ledger) handlers(id int) []string {
	l.mu.Lock()
	defer l.mu.Unlock()
	return append([]string(nil), l.seen[id]...)
}

type c21Msg struct {
	led *c21Ledger
	id  int
	key string
}

type c21Ping struct{}
type c21Pong struct{}
type c21Poison struct{ mode string } // "panic" | "shutdown"

// c21Routee is created by the router through reflection (zero value).
type c21Routee struct{ name string }

func (a *c21Routee) PreStart(ctx *Context) error { a.name = ctx.ActorName(); return nil }
func (a *c21Routee) PostStop(*Context) error     { return nil }
func (a *c21Routee) Receive(ctx *ReceiveContext) {
	switch m := ctx.Message().(type) {
	case *c21Msg:
		m.led.record(a.name, m.id)
	case *c21Ping:
		ctx.Response(&c21Pong{})
	case *c21Poison:
		if m.mode == "panic" {
			panic("c21 routee poison")
		}
		ctx.Shutdown()
	}
}

// c21Logger keeps the "child failing" warnings (the only place a recovered
// handler panic of a system-spawned router is reported).
type c21Logger struct {
	log.Logger
	mu    sync.Mutex
	lines []string
}

func (l *c21Logger) Warnf(format string, v ...any) {
	if !strings.Contains(format, "failing") {
		return
	}
	s := fmt.Sprintf(format, v...)
	l.mu.Lock()
	if len(l.lines) < 10000 {
		l.lines = append(l.lines, s)
	}
	l.mu.Unlock()
}

// failures returns the captured failure lines of the named child since mark.
func (l *c21Logger) failures(child string, mark int) []string {
	l.mu.Lock()
	defer l.mu.Unlock()
	var out []string
	for _, s := range l.lines[mark:] {
		if strings.Contains(s, "child="+child+" ") {
			out = append(out, s)
		}
	}
	return out
}

func (l *c21Logger) mark() int { l.mu.Lock(); defer l.mu.Unlock(); return len(l.lines) }

// c21TruncHasher keeps only the low bits of the default hash (a user-supplied
// narrow hasher, e.g. a 32-bit or 16-bit hash widened to uint64).
type c21TruncHasher struct {
	bits uint
	base hash.Hasher
}

func (h c21TruncHasher) HashCode(key []byte) uint64 {
	return h.base.HashCode(key) & (uint64(1)<<h.bits - 1)
}

func c21Hasher(kind string) hash.Hasher {
	switch kind {
	case "32bit":
		return c21TruncHasher{32, hash.DefaultHasher()}
	case "16bit":
		return c21TruncHasher{16, hash.DefaultHasher()}
	case "10bit":
		return c21TruncHasher{10, hash.DefaultHasher()}
	}
	return hash.DefaultHasher()
}

var c21RouterSeq atomic.Int64

type c21Env struct {
	t   *testing.T
	r   *verifrt.Run
	sys *actorSystem
	lg  *c21Logger
}

// routeeNames asks the router for its routees (also the "router has handled
// everything enqueued before" barrier). ok=false when the router does not answer.
func (e *c21Env) routeeNames(router *PID) ([]string, bool) {
	for attempt := 0; attempt < 3; attempt++ {
		resp, err := Ask(context.Background(), router, &GetRoutees{}, 20*time.Second)
		if err == nil {
			if rs, ok := resp.(*Routees); ok {
				names := append([]string(nil), rs.Names()...)
				sort.Strings(names)
				return names, true
			}
		}
		if !router.IsRunning() {
			return nil, false
		}
	}
	return nil, false
}

// spawn starts a router and waits until it reports poolSize routees, all of them
// present in the actor tree. (A router whose PostStart ran before the router itself
// was attached to the tree leaves its first routees out of the tree: the system
// swallows that insertion error. Such routers are useless for a structural
// completion barrier, so they are stopped, counted and replaced.)
func (e *c21Env) spawn(poolSize int, opts ...RouterOption) (*PID, []string) {
	for attempt := 0; attempt < 20; attempt++ {
		name := fmt.Sprintf("c21router%d", c21RouterSeq.Add(1))
		pid, err := e.sys.SpawnRouter(context.Background(), name, poolSize, &c21Routee{}, opts...)
		if err != nil {
			e.t.Fatalf("SpawnRouter: %v", err)
		}
		var names []string
		ok := verifrt.WaitUntil(60*time.Second, func() bool {
			resp, err := Ask(context.Background(), pid, &GetRoutees{}, 2*time.Second)
			if err != nil {
				return false
			}
			rs, isR := resp.(*Routees)
			if !isR || len(rs.Names()) != poolSize {
				return false
			}
			names = append([]string(nil), rs.Names()...)
			return true
		})
		if !ok {
			e.t.Fatalf("router %s never reported %d routees", name, poolSize)
		}
		sort.Strings(names)
		missing := 0
		for _, n := range names {
			if _, ok := e.sys.findRoutee(n); !ok {
				missing++
			}
		}
		if missing == 0 {
			return pid, names
		}
		e.r.Count("spawn_race_routers_with_routees_missing_from_tree", 1)
		e.r.Count("spawn_race_orphan_routees", int64(missing))
		e.stop(pid)
	}
	e.t.Fatalf("20 consecutive routers had routees missing from the actor tree")
	return nil, nil
}

func c21FanoutSendersAlive() bool {
	buf := make([]byte, 1<<20)
	for {
		n := runtime.Stack(buf, true)
		if n < len(buf) {
			return strings.Contains(string(buf[:n]), "(*router).routeByStrategy")
		}
		buf = make([]byte, 2*len(buf))
	}
}

// settle is the structural completion barrier. It returns false when a
// participant did not answer (watchdog => inconclusive, never a verdict).
func (e *c21Env) settle(router *PID, routees []string, fanout bool) bool {
	if router.IsRunning() {
		if _, ok := e.routeeNames(router); !ok && router.IsRunning() {
			return false
		}
	}
	if fanout {
		if !verifrt.WaitUntil(60*time.Second, func() bool { return !c21FanoutSendersAlive() }) {
			return false
		}
	}
	for _, n := range routees {
		pid, ok := e.sys.findRoutee(n)
		if !ok || !pid.IsRunning() {
			continue // stopped routee: its mailbox is gone, nothing can arrive late
		}
		if _, err := Ask(context.Background(), pid, &c21Ping{}, 20*time.Second); err != nil {
			if pid.IsRunning() {
				return false
			}
		}
	}
	return true
}

func (e *c21Env) stop(router *PID) {
	ctx, cancel := context.WithTimeout(context.Background(), 30*time.Second)
	defer cancel()
	_ = router.Shutdown(ctx)
}

func (e *c21Env) send(router *PID, m *c21Msg) {
	if err := Tell(context.Background(), router, NewBroadcast(m)); err != nil {
		// a dead router is judged by what the ledger shows
		e.r.Count("tell_errors", 1)
	}
}

func TestVerif_C21(t *testing.T) {
	r := verifrt.Start(t, "C21")
	defer r.Finish()
	r.Rule("round-robin case = (pool size 1-7, preset of the router's 32-bit counter: 0 / random / within 12 messages of 2^32, 12-40 messages): every message handled exactly once, and the handler sequence is cyclic (the first n messages reach n distinct routees, message k reaches the routee of message k-n); fan-out case = (pool 1-7, messages): every routee handles every message exactly once; consistent-hash case = (pool 2-7, keys, hasher default/32/16/10-bit, virtual nodes, removal by AdjustRouterPoolSize(-1) / routee panic / routee self-shutdown): equal keys reach one routee before and after the removal, every message handled once, keys not owned by the removed routee keep their owner; ring case = bare consistentHashRing against a ring-ownership reference (first virtual node at or after the key hash) with member removal. non-trivial = counter crossed 2^32 with >1 routee (round-robin), >1 routee (fan-out), removed routee owned at least one key and >1 routee remained (hash); distinct by the tuple")
	r.Assume("messages from one sender goroutine are handled by the router in send order (single FIFO mailbox), so the k-th Tell is the k-th routed message")

	lg := &c21Logger{Logger: log.DiscardLogger}
	sys := vfNewSystem(t, WithLogger(lg))
	defer vfStop(sys)
	e := &c21Env{t: t, r: r, sys: sys, lg: lg}
	rng := r.Rand(1)

	c21RoundRobin(e, rng, r.N(80, 1500))
	c21FanOut(e, rng, r.N(32, 600))
	c21ConsistentHash(e, rng, r.N(48, 900))
	c21Ring(e, rng, r.N(600, 30000))
}

// ---------------------------------------------------------------- round-robin

func c21RoundRobin(e *c21Env, rng *rand.Rand, cases int) {
	r := e.r
	for c := 0; c < cases; c++ {
		size := 1 + rng.Intn(7)
		msgs := 12 + rng.Intn(29)
		var preset uint32
		switch mode := rng.Intn(10); {
		case mode < 2:
			preset = 0
		case mode < 4:
			preset = rng.Uint32()
		case mode == 4:
			preset = math.MaxInt32 - uint32(rng.Intn(6))
		default:
			preset = math.MaxUint32 - uint32(rng.Intn(12))
		}
		rpid, names := e.spawn(size, WithRoutingStrategy(RoundRobinRouting))
		rt := rpid.Actor().(*router)
		key := fmt.Sprintf("rr/%d/%d/%d", size, preset, msgs)
		// wrapAt = index of the message whose counter value is 0 (the wrap), or -1
		wrapAt := -1
		if uint64(preset)+uint64(msgs) >= 1<<32 {
			wrapAt = int(uint64(1<<32) - uint64(preset) - 1)
		}
		idx := map[string]int{}
		for i, n := range names {
			idx[n] = i
		}
		// collect reads the ledger: seq[k] = routee of message k ("" unless handled exactly once)
		collect := func(led *c21Ledger) (seq []string, shown []string) {
			seq = make([]string, msgs)
			for k := 0; k < msgs; k++ {
				h := led.handlers(k)
				switch {
				case len(h) == 1:
					seq[k] = h[0]
					shown = append(shown, fmt.Sprint(idx[h[0]]))
				case len(h) == 0:
					shown = append(shown, "LOST")
				default:
					shown = append(shown, "DUP")
				}
			}
			return seq, shown
		}

		// ======== A. through the router's mailbox (Broadcast) ========
		atomic.StoreUint32(&rt.roundRobinNext, preset) // router idle: it answered GetRoutees and nothing else was sent
		led := &c21Ledger{seen: map[int][]string{}}
		mark := e.lg.mark()
		for k := 0; k < msgs; k++ {
			e.send(rpid, &c21Msg{led: led, id: k})
		}
		settled := e.settle(rpid, names, false)
		if !settled {
			e.stop(rpid)
			r.Inconclusive("round-robin case %s: router or routee did not answer the completion barrier", key)
			r.Case(key, false)
			continue
		}
		counterAfter := atomic.LoadUint32(&rt.roundRobinNext)
		seq, shown := collect(led)
		lost := 0
		for k := range seq {
			if len(led.handlers(k)) == 0 {
				lost++
			}
		}
		if lost > 0 {
			// the recovered handler panic is reported asynchronously by the supervision
			// path; wait for it only to name the violation, never to decide it
			verifrt.WaitUntil(30*time.Second, func() bool { return len(e.lg.failures(rpid.Name(), mark)) > 0 })
		}
		routerFailures := e.lg.failures(rpid.Name(), mark)
		detail := func(extra map[string]any) map[string]any {
			d := map[string]any{"path": "broadcast", "routees": size, "preset_counter": preset, "messages": msgs, "wrap_at_message": wrapAt, "counter_after": counterAfter,
				"handled_by": strings.Join(shown, ","), "router_failures": routerFailures, "code": "actor/router.go routeByStrategy: routees[(int(n)-1)%len(routees)] with routees = availableRoutees() (iterates the routees map)"}
			for k, v := range extra {
				d[k] = v
			}
			return d
		}
		r.Count("rr_messages", int64(msgs))
		// (the value of the internal counter is not judged: only which routee
		// handled which message is observable behaviour)
		// 1. exactly once
		panickedIdx := false
		for _, f := range routerFailures {
			if strings.Contains(f, "index out of range [-1]") {
				panickedIdx = true
			}
		}
		for k := 0; k < msgs; k++ {
			h := led.handlers(k)
			if len(h) == 0 {
				switch {
				case k == wrapAt && panickedIdx:
					r.Violation("roundrobin-wrap-panic:index -1", detail(map[string]any{"lost_message": k}))
				case k == wrapAt:
					r.Violation("roundrobin-wrap-message-lost", detail(map[string]any{"lost_message": k}))
				default:
					r.Violation("roundrobin-message-lost", detail(map[string]any{"lost_message": k}))
				}
			} else if len(h) > 1 {
				r.Violation("roundrobin-message-duplicated", detail(map[string]any{"message": k, "handlers": h}))
			}
		}
		if lost == 0 && len(routerFailures) > 0 {
			r.Violation("roundrobin-router-handler-failed", detail(nil))
		}
		// 2. cyclic order of the handler sequence (the router's own order is whatever
		// the first n messages show). A sequence that is cyclic everywhere except
		// across the wrap message is attributed to the wrap; anything else is not cyclic.
		orderBad, wrapOrderBad := -1, -1
		firstN := map[string]bool{}
		for k := 0; k < msgs; k++ {
			if seq[k] == "" {
				continue
			}
			straddles := false
			badPair := false
			if k < size {
				badPair = firstN[seq[k]]
				firstN[seq[k]] = true
				straddles = wrapAt >= 0 && wrapAt <= k
			} else if seq[k-size] != "" {
				badPair = seq[k] != seq[k-size]
				straddles = wrapAt > k-size && wrapAt <= k
			}
			if !badPair {
				continue
			}
			if straddles {
				if wrapOrderBad < 0 {
					wrapOrderBad = k
				}
			} else if orderBad < 0 {
				orderBad = k
			}
		}
		switch {
		case orderBad >= 0:
			r.Violation("roundrobin-order:not-cyclic", detail(map[string]any{"first_bad_message": orderBad}))
		case wrapOrderBad >= 0:
			r.Violation(fmt.Sprintf("roundrobin-wrap-order:routees=%d", size), detail(map[string]any{"first_bad_message": wrapOrderBad}))
		}

		// ======== B. routeByStrategy directly, with a fixed routee slice ========
		// (isolates the index arithmetic from the order availableRoutees() happens to
		// produce: expected routee of the k-th routed message = slice[(k-1) mod n])
		fixed := make([]*PID, size)
		okFixed := true
		for i, n := range names {
			pid, ok := e.sys.findRoutee(n)
			if !ok {
				okFixed = false
			}
			fixed[i] = pid
		}
		var shownB []string
		if okFixed && rpid.IsRunning() {
			atomic.StoreUint32(&rt.roundRobinNext, preset)
			ledB := &c21Ledger{seen: map[int][]string{}}
			panics := make([]string, msgs)
			for k := 0; k < msgs; k++ {
				m := &c21Msg{led: ledB, id: k}
				rc := toReceiveContext(context.Background(), e.sys.NoSender(), rpid, NewBroadcast(m), true)
				func() {
					defer func() {
						if rec := recover(); rec != nil {
							panics[k] = fmt.Sprint(rec)
						}
					}()
					rt.routeByStrategy(rc, m, fixed)
				}()
			}
			if !e.settle(rpid, names, false) {
				e.stop(rpid)
				r.Inconclusive("round-robin case %s: routees did not answer the completion barrier (direct path)", key)
				r.Case(key, false)
				continue
			}
			var seqB []string
			seqB, shownB = collect(ledB)
			detailB := func(extra map[string]any) map[string]any {
				d := map[string]any{"path": "routeByStrategy(fixed routee slice)", "routees": size, "preset_counter": preset, "messages": msgs, "wrap_at_message": wrapAt,
					"handled_by": strings.Join(shownB, ","), "code": "actor/router.go routeByStrategy: routees[(int(n)-1)%len(routees)]"}
				for k, v := range extra {
					d[k] = v
				}
				return d
			}
			reportedIdx, reportedWrap := false, false
			for k := 0; k < msgs; k++ {
				if panics[k] != "" {
					if k == wrapAt && strings.Contains(panics[k], "index out of range [-1]") {
						r.Violation("roundrobin-wrap-panic:index -1", detailB(map[string]any{"message": k, "panic": panics[k]}))
					} else {
						r.Violation("roundrobin-panic", detailB(map[string]any{"message": k, "panic": panics[k]}))
					}
					continue
				}
				if seqB[k] == "" {
					r.Violation("roundrobin-message-not-handled-once:direct", detailB(map[string]any{"message": k, "handlers": ledB.handlers(k)}))
					continue
				}
				got := idx[seqB[k]]
				// the k-th routed message overall is number preset+k+1: routee (preset+k) mod n,
				// before and after the 32-bit counter wraps alike
				want := int((uint64(preset) + uint64(k)) % uint64(size))
				if got != want {
					if wrapAt >= 0 && k >= wrapAt {
						if !reportedWrap {
							r.Violation(fmt.Sprintf("roundrobin-wrap-order:routees=%d", size), detailB(map[string]any{"message": k, "got_index": got, "want_index": want}))
						}
						reportedWrap = true
					} else {
						if !reportedIdx {
							r.Violation("roundrobin-index:not-(k-1)-mod-n", detailB(map[string]any{"message": k, "got_index": got, "want_index": want}))
						}
						reportedIdx = true
					}
				}
			}
			r.Count("rr_direct_calls", int64(msgs))
		}
		e.stop(rpid)
		if wrapAt >= 0 {
			r.Count("rr_cases_crossing_2^32", 1)
		}
		r.Case(key, wrapAt >= 0 && size > 1)
		if c < 2 || (wrapAt >= 0 && c < 12) {
			r.Sample(map[string]any{"kind": "round-robin", "routees": size, "preset": preset, "wrap_at_message": wrapAt, "handled_by_broadcast_path": strings.Join(shown, ","), "handled_by_direct_path": strings.Join(shownB, ",")})
		}
	}
}

// ---------------------------------------------------------------- fan-out

func c21FanOut(e *c21Env, rng *rand.Rand, cases int) {
	r := e.r
	for c := 0; c < cases; c++ {
		size := 1 + rng.Intn(7)
		msgs := 5 + rng.Intn(60)
		var opts []RouterOption
		if rng.Intn(2) == 0 {
			opts = append(opts, WithRoutingStrategy(FanOutRouting)) // also the default
		}
		router, names := e.spawn(size, opts...)
		led := &c21Ledger{seen: map[int][]string{}}
		mark := e.lg.mark()
		for k := 0; k < msgs; k++ {
			e.send(router, &c21Msg{led: led, id: k})
		}
		settled := e.settle(router, names, true)
		routerFailures := e.lg.failures(router.Name(), mark)
		e.stop(router)
		key := fmt.Sprintf("fanout/%d/%d/%d", size, msgs, c)
		if !settled {
			r.Inconclusive("fan-out case %s: completion barrier not reached", key)
			r.Case(key, false)
			continue
		}
		r.Count("fanout_deliveries_expected", int64(msgs*size))
		bad := false
		for k := 0; k < msgs && !bad; k++ {
			h := led.handlers(k)
			count := map[string]int{}
			for _, n := range h {
				count[n]++
			}
			for _, n := range names {
				if count[n] != 1 {
					sig := "fanout-routee-missed-message"
					if count[n] > 1 {
						sig = "fanout-routee-got-message-twice"
					}
					r.Violation(sig, map[string]any{"routees": size, "messages": msgs, "message": k, "routee": n, "times": count[n], "handlers": h, "router_failures": routerFailures})
					bad = true
					break
				}
			}
			if len(h) != size && !bad {
				r.Violation("fanout-delivered-to-unknown-routee", map[string]any{"routees": size, "message": k, "handlers": h})
				bad = true
			}
		}
		r.Case(key, size > 1)
		if c < 1 {
			r.Sample(map[string]any{"kind": "fan-out", "routees": size, "messages": msgs, "ok": !bad})
		}
	}
}

// ---------------------------------------------------------------- consistent hash (router)

func c21ConsistentHash(e *c21Env, rng *rand.Rand, cases int) {
	r := e.r
	extractor := func(msg any) string {
		if m, ok := msg.(*c21Msg); ok {
			return m.key
		}
		return ""
	}
	for c := 0; c < cases; c++ {
		size := 2 + rng.Intn(6)
		nkeys := 100 + rng.Intn(500)
		hkind := []string{"default", "default", "32bit", "16bit", "10bit"}[rng.Intn(5)]
		vnodes := []int{0, 0, 1, 3, 20}[rng.Intn(5)] // 0 = default (150)
		removal := []string{"scale-down", "routee-panic", "routee-self-shutdown"}[rng.Intn(3)]
		opts := []RouterOption{WithConsistentHashRouter(extractor)}
		if hkind != "default" {
			opts = append(opts, WithConsistentHashHasher(c21Hasher(hkind)))
		}
		if vnodes > 0 {
			opts = append(opts, WithConsistentHashVirtualNodes(vnodes))
		}
		router, names := e.spawn(size, opts...)
		key := fmt.Sprintf("chash/%d/%d/%s/v%d/%s/%d", size, nkeys, hkind, vnodes, removal, c)
		sigTail := ":" + removal + ":hasher=" + hkind
		keys := make([]string, nkeys)
		for i := range keys {
			keys[i] = fmt.Sprintf("k%d-%x", i, rng.Int63())
		}
		mark := e.lg.mark()
		detail := func(extra map[string]any) map[string]any {
			d := map[string]any{"routees": size, "keys": nkeys, "hasher": hkind, "virtual_nodes": vnodes, "removal": removal, "router_failures": e.lg.failures(router.Name(), mark)}
			for k, v := range extra {
				d[k] = v
			}
			return d
		}
		// phase: send every key `rep` times, interleaved; returns owner per key ("" when inconsistent/lost)
		nextID := 0
		phase := func(label string, rep int, live []string) (owner []string, ok bool, settled bool) {
			led := &c21Ledger{seen: map[int][]string{}}
			ids := make([][]int, nkeys)
			for rr := 0; rr < rep; rr++ {
				perm := rng.Perm(nkeys)
				for _, ki := range perm {
					e.send(router, &c21Msg{led: led, id: nextID, key: keys[ki]})
					ids[ki] = append(ids[ki], nextID)
					nextID++
				}
			}
			if !e.settle(router, names, false) {
				return nil, false, false
			}
			r.Count("chash_messages", int64(nkeys*rep))
			owner = make([]string, nkeys)
			ok = true
			liveSet := map[string]bool{}
			for _, n := range live {
				liveSet[n] = true
			}
			var lostN, splitN, deadN int
			var lostW, splitW map[string]any
			for ki := range keys {
				var hs []string
				for _, id := range ids[ki] {
					h := led.handlers(id)
					if len(h) != 1 {
						lostN++
						if lostW == nil {
							lostW = map[string]any{"key": keys[ki], "message_id": id, "handled_times": len(h)}
						}
						continue
					}
					hs = append(hs, h[0])
				}
				same := true
				for _, h := range hs {
					if h != hs[0] {
						same = false
					}
				}
				if !same {
					splitN++
					if splitW == nil {
						splitW = map[string]any{"key": keys[ki], "routees": hs}
					}
					continue
				}
				if len(hs) == rep {
					owner[ki] = hs[0]
					if !liveSet[hs[0]] {
						deadN++
					}
				}
			}
			if lostN > 0 {
				ok = false
				r.Violation("consistenthash-message-not-handled-once:"+label+sigTail, detail(map[string]any{"phase": label, "count": lostN, "witness": lostW}))
			}
			if splitN > 0 {
				ok = false
				r.Violation("consistenthash-equal-keys-different-routees:"+label+sigTail, detail(map[string]any{"phase": label, "keys_split": splitN, "witness": splitW}))
			}
			if deadN > 0 {
				ok = false
				r.Violation("consistenthash-routed-to-removed-routee:"+label+sigTail, detail(map[string]any{"phase": label, "keys": deadN}))
			}
			return owner, ok, true
		}

		before, _, settled := phase("before-removal", 2, names)
		if !settled {
			e.stop(router)
			r.Inconclusive("consistent-hash case %s: completion barrier not reached (before removal)", key)
			r.Case(key, false)
			continue
		}
		// ---- remove one routee ----
		var removed string
		switch removal {
		case "scale-down":
			_ = Tell(context.Background(), router, NewAdjustRouterPoolSize(-1))
		default:
			victim := names[rng.Intn(len(names))]
			pid, ok := e.sys.findRoutee(victim)
			if !ok {
				e.stop(router)
				r.Inconclusive("consistent-hash case %s: routee %s vanished from the actor tree before the removal step", key, victim)
				r.Case(key, false)
				continue
			}
			mode := "panic"
			if removal == "routee-self-shutdown" {
				mode = "shutdown"
			}
			_ = Tell(context.Background(), pid, &c21Poison{mode: mode})
			removed = victim
		}
		// The membership change is complete, structurally, when exactly one of the
		// original routees has left the actor tree (not merely stopped running: a
		// panicking routee is suspended before the router handles its PanicSignal) and
		// the router has afterwards answered a request: for the router-driven paths the
		// stop happens inside the router's own handler, so the answer comes after the
		// ring was rebuilt.
		var after []string
		gone := verifrt.WaitUntil(60*time.Second, func() bool {
			down := 0
			for _, n := range names {
				if _, ok := e.sys.findRoutee(n); !ok {
					down++
					removed = n
				}
			}
			return down == 1
		})
		if gone {
			_, gone = e.routeeNames(router)
		}
		if !gone {
			e.stop(router)
			r.Inconclusive("consistent-hash case %s: the routee removal did not complete within the watchdog", key)
			r.Case(key, false)
			continue
		}
		for _, n := range names {
			if n != removed {
				after = append(after, n)
			}
		}
		ownedByRemoved := 0
		for ki := range keys {
			if before[ki] == removed {
				ownedByRemoved++
			}
		}
		afterOwner, _, settled := phase("after-removal", 3, after)
		e.stop(router)
		if !settled {
			r.Inconclusive("consistent-hash case %s: completion barrier not reached (after removal)", key)
			r.Case(key, false)
			continue
		}
		moved := 0
		var movedW map[string]any
		for ki := range keys {
			if before[ki] == "" || afterOwner[ki] == "" || before[ki] == removed {
				continue
			}
			if afterOwner[ki] != before[ki] {
				moved++
				if movedW == nil {
					movedW = map[string]any{"key": keys[ki], "owner_before": before[ki], "owner_after": afterOwner[ki], "removed": removed}
				}
			}
		}
		if moved > 0 {
			r.Violation("consistenthash-key-moved-although-owner-kept"+sigTail, detail(map[string]any{"keys_moved": moved, "witness": movedW, "removed": removed, "keys_owned_by_removed": ownedByRemoved}))
		}
		r.Count("chash_keys_owned_by_removed", int64(ownedByRemoved))
		r.Case(key, ownedByRemoved > 0 && size > 2)
		if c < 2 {
			r.Sample(map[string]any{"kind": "consistent-hash", "routees": size, "keys": nkeys, "hasher": hkind, "virtual_nodes": vnodes, "removal": removal, "removed": removed, "keys_owned_by_removed": ownedByRemoved, "moved_wrongly": moved})
		}
	}
}

// ---------------------------------------------------------------- consistent hash (bare ring)

func c21Ring(e *c21Env, rng *rand.Rand, cases int) {
	r := e.r
	for c := 0; c < cases; c++ {
		hkind := []string{"default", "32bit", "16bit", "10bit", "10bit"}[rng.Intn(5)]
		hasher := c21Hasher(hkind)
		vnodes := []int{1, 2, 5, 20, 150}[rng.Intn(5)]
		nm := 1 + rng.Intn(7)
		members := make([]string, nm)
		for i := range members {
			members[i] = fmt.Sprintf("goakt://sys@127.0.0.1:0/router/m%d-%x", i, rng.Int31())
		}
		nkeys := 200 + rng.Intn(400)
		keys := make([]string, nkeys)
		for i := range keys {
			var b [8]byte
			binary.LittleEndian.PutUint64(b[:], rng.Uint64())
			keys[i] = fmt.Sprintf("key-%x", b)
		}
		ring := newConsistentHashRing(hasher, vnodes)
		shuffled := append([]string(nil), members...)
		rng.Shuffle(len(shuffled), func(i, j int) { shuffled[i], shuffled[j] = shuffled[j], shuffled[i] })
		ring.set(shuffled)
		key := fmt.Sprintf("ring/%s/v%d/m%d/k%d/%d", hkind, vnodes, nm, nkeys, c)
		sigTail := ":hasher=" + hkind
		det := func(extra map[string]any) map[string]any {
			d := map[string]any{"hasher": hkind, "virtual_nodes": vnodes, "members": nm, "keys": nkeys}
			for k, v := range extra {
				d[k] = v
			}
			return d
		}
		// reference: admissible owners = members holding a virtual node at the first
		// point >= hash(key) (wrapping); several when virtual nodes collide
		model := func(ms []string) func(k string) map[string]bool {
			pts := map[uint64]map[string]bool{}
			var sorted []uint64
			for _, m := range ms {
				for i := 0; i < vnodes; i++ {
					h := ring.hashVNode(m, i)
					if pts[h] == nil {
						pts[h] = map[string]bool{}
						sorted = append(sorted, h)
					}
					pts[h][m] = true
				}
			}
			sort.Slice(sorted, func(i, j int) bool { return sorted[i] < sorted[j] })
			return func(k string) map[string]bool {
				h := hasher.HashCode([]byte(k))
				i := sort.Search(len(sorted), func(i int) bool { return sorted[i] >= h })
				if i == len(sorted) {
					i = 0
				}
				return pts[sorted[i]]
			}
		}
		ref := model(members)
		owner := make([]string, nkeys)
		collisionsSeen := 0
		bad := false
		for i, k := range keys {
			o := ring.lookup(k)
			owner[i] = o
			adm := ref(k)
			if len(adm) > 1 {
				collisionsSeen++
			}
			if !adm[o] && !bad {
				sig := "ring-owner-differs-from-ring-model"
				in := false
				for _, m := range members {
					if m == o {
						in = true
					}
				}
				if !in {
					sig = "ring-lookup-returned-non-member"
				}
				r.Violation(sig+sigTail, det(map[string]any{"key": k, "got": o, "admissible": fmt.Sprint(adm)}))
				bad = true
			}
			if o2 := ring.lookup(k); o2 != o && !bad {
				r.Violation("ring-lookup-not-deterministic"+sigTail, det(map[string]any{"key": k, "first": o, "second": o2}))
				bad = true
			}
		}
		// same membership, rebuilt in another order (the router rebuilds from a map)
		if nm > 1 {
			again := append([]string(nil), members...)
			rng.Shuffle(len(again), func(i, j int) { again[i], again[j] = again[j], again[i] })
			ring2 := newConsistentHashRing(hasher, vnodes)
			ring2.set(again)
			diff := 0
			var w map[string]any
			for i, k := range keys {
				if o := ring2.lookup(k); o != owner[i] {
					diff++
					if w == nil {
						w = map[string]any{"key": k, "owner_build_1": owner[i], "owner_build_2": o}
					}
				}
			}
			// not a verdict by itself (the statement speaks of unchanged membership, and
			// the router only rebuilds on membership changes): evidence for the removal check
			_ = w
			r.Count("ring_keys_whose_owner_depends_on_member_order", int64(diff))
		}
		// remove one member
		ownedByRemoved := 0
		if nm > 1 {
			ri := rng.Intn(nm)
			removed := members[ri]
			rest := append(append([]string(nil), members[:ri]...), members[ri+1:]...)
			rng.Shuffle(len(rest), func(i, j int) { rest[i], rest[j] = rest[j], rest[i] })
			ring.set(rest)
			moved := 0
			var w map[string]any
			for i, k := range keys {
				o := ring.lookup(k)
				if owner[i] == removed {
					ownedByRemoved++
					if o == removed && !bad {
						r.Violation("ring-lookup-returned-removed-member"+sigTail, det(map[string]any{"key": k}))
						bad = true
					}
					continue
				}
				if o != owner[i] {
					moved++
					if w == nil {
						w = map[string]any{"key": k, "owner_before": owner[i], "owner_after": o, "removed": removed}
					}
				}
			}
			if moved > 0 {
				r.Violation("ring-key-moved-although-owner-kept"+sigTail, det(map[string]any{"keys_moved": moved, "witness": w, "keys_on_colliding_points": collisionsSeen}))
			}
		}
		r.Count("ring_lookups", int64(3*nkeys))
		r.Count("ring_keys_on_colliding_points", int64(collisionsSeen))
		r.Case(key, nm > 2 && ownedByRemoved > 0)
	}
}
