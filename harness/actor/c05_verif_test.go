//go:build verif

package actor

import (
	"fmt"
	"math/rand"
	"runtime"
	"sync"
	"sync/atomic"
	"testing"
	"time"

	"github.com/tochemey/goakt/v4/internal/verifrt"
)

// C05: the dispatcher's ready queue never loses or duplicates a scheduled item,
// no worker stays parked while work is queued, close makes every worker exit.
// Real workers (worker.run) take fake schedulables from a bare dispatcher; a token
// ledger counts every hand-over; structural invariants are probed under the
// queue's own locks at quiescence.

type c05Token struct {
	id        int
	resched   int32 // remaining self re-pushes through worker.reschedule (local ring)
	taken     atomic.Int32
	expected  int32
	dwell     int
	total     *atomic.Int64
	inTurn    atomic.Int32
	overlap   *atomic.Int64
	fanout    []*c05Token // tokens this one pushes to the global queue from inside its turn
	disp      *dispatcher
	fanoutSent atomic.Bool
	localFanout bool         // fan out through worker.reschedule (local ring) instead of the global queue
	barrier    *c05Barrier   // rendezvous: the turn waits until all members are running at once
}

// c05Barrier is a rendezvous of k tokens: it can only complete when k workers run
// k tokens at the same time, i.e. when no worker stayed parked while externally
// pushed work was queued.
type c05Barrier struct {
	need    int32
	arrived atomic.Int32
	failed  atomic.Bool
}

func (b *c05Barrier) wait() {
	b.arrived.Add(1)
	ok := verifrt.WaitUntil(20*time.Second, func() bool { return b.arrived.Load() >= b.need })
	if !ok {
		b.failed.Store(true)
	}
}

func (k *c05Token) runTurn(w *worker) {
	if !k.inTurn.CompareAndSwap(0, 1) {
		k.overlap.Add(1)
	}
	k.taken.Add(1)
	k.total.Add(1)
	switch k.dwell {
	case 1:
		runtime.Gosched()
	case 2:
		t0 := time.Now()
		for time.Since(t0) < 20*time.Microsecond {
		}
	}
	if k.barrier != nil {
		k.barrier.wait()
	}
	if len(k.fanout) > 0 && k.fanoutSent.CompareAndSwap(false, true) {
		for _, f := range k.fanout {
			if k.localFanout {
				w.reschedule(f)
			} else {
				k.disp.schedule(f)
			}
		}
	}
	again := atomic.AddInt32(&k.resched, -1) >= 0
	k.inTurn.Store(0)
	if again {
		w.reschedule(k)
	}
}

type c05Knobs struct {
	Workers  int
	Pushers  int
	Tokens   int // per pusher
	Resched  int // self re-pushes per token (local ring traffic)
	Burst    int // one hoarding token re-pushing many others locally (ring overflow)
	Dwell    int
	Noise    int
	CloseRace bool // close while pushes are still running
	LocalBurst bool // the burst token fans out through the local ring (overflow past 256 slots)
	Rendezvous int  // k tokens that must run simultaneously (0 = none)
}

func (k c05Knobs) String() string {
	return fmt.Sprintf("workers=%d pushers=%d tokens=%d resched=%d burst=%d dwell=%d noise=%d closerace=%v localburst=%v rendezvous=%d", k.Workers, k.Pushers, k.Tokens, k.Resched, k.Burst, k.Dwell, k.Noise, k.CloseRace, k.LocalBurst, k.Rendezvous)
}

func TestVerif_C05(t *testing.T) {
	r := verifrt.Start(t, "C05")
	defer r.Finish()
	r.Rule("case = bare dispatcher with 2-3 (sometimes 8) real workers running worker.run, 1-4 external pushers, tokens that re-push themselves through the local ring, a burst token fanning out 300-700 pushes (local ring overflow, global ring growth past 64/128/256/512), optional close racing the pushes, k hot noise sites in ready_queue.go; oracle = token ledger (each push taken exactly once), in-turn CAS word per token, structural invariants under the queue's own locks at quiescence (rings empty, sizeAtomic==size, globalCount==global.size, all workers parked), workers exit after close; non-trivial = steals or local-ring overflow or global growth actually happened (measured from ring sizes / counters); distinct by knobs+seed")
	rng := r.Rand(5)
	// local-ring overflow with every sibling parked: see c05_spill_verif_test.go
	c05RunSpillWake(r, r.Rand(55), r.N(24, 600))
	n := r.N(96, 3000)
	for c := 0; c < n; c++ {
		k := c05Knobs{
			Workers: []int{2, 3, 3, 8}[rng.Intn(4)],
			Pushers: 1 + rng.Intn(4),
			Tokens:  []int{1, 10, 100, 400}[rng.Intn(4)],
			Resched: []int{0, 1, 3}[rng.Intn(3)],
			Burst:   []int{0, 0, 300, 700}[rng.Intn(4)],
			Dwell:   rng.Intn(3),
			Noise:   rng.Intn(4),
			CloseRace: rng.Intn(5) == 0,
			LocalBurst: rng.Intn(2) == 0,
		}
		if rng.Intn(3) == 0 {
			k.Rendezvous = 2 + rng.Intn(k.Workers-1) // 2..Workers
			k.CloseRace = false
		}
		seed := rng.Int63()
		c05RunCase(r, k, seed, c < 3)
	}
}

func c05RunCase(r *verifrt.Run, k c05Knobs, seed int64, sample bool) {
	d := newDispatcher(k.Workers, 8)
	rq := d.readyQueue
	var exited atomic.Int32
	for _, w := range d.workers {
		w := w
		go func() {
			w.run()
			exited.Add(1)
		}()
	}
	var hot []string
	if k.Noise > 0 {
		hot = verifrt.StartNoise(verifrt.NoiseConfig{Seed: seed, GoschedPerMille: 30, HotSites: k.Noise,
			Candidates: verifrt.SitesIn("ready_queue.go", "worker.go"), HotPerMille: 300,
			MinDelay: 10 * time.Microsecond, MaxDelay: 500 * time.Microsecond, Budget: 200})
	}
	var total, overlap atomic.Int64
	var all []*c05Token
	var allMu sync.Mutex
	mk := func(resched int) *c05Token {
		tk := &c05Token{resched: int32(resched), expected: int32(resched + 1), dwell: k.Dwell, total: &total, overlap: &overlap, disp: d}
		allMu.Lock()
		tk.id = len(all)
		all = append(all, tk)
		allMu.Unlock()
		return tk
	}
	var expectedTotal int64
	var pushed atomic.Int64
	var wg sync.WaitGroup
	perPusher := make([][]*c05Token, k.Pushers)
	for p := 0; p < k.Pushers; p++ {
		for i := 0; i < k.Tokens; i++ {
			tk := mk(k.Resched)
			perPusher[p] = append(perPusher[p], tk)
			expectedTotal += int64(tk.expected)
		}
	}
	if k.Burst > 0 {
		b := mk(0)
		b.localFanout = k.LocalBurst
		for i := 0; i < k.Burst; i++ {
			f := mk(1) // each fanned-out token re-pushes itself once through the local ring
			b.fanout = append(b.fanout, f)
			expectedTotal += int64(f.expected)
		}
		perPusher[0] = append(perPusher[0], b)
		expectedTotal += int64(b.expected)
	}
	maxGlobal := 0
	var barrier *c05Barrier
	if k.Rendezvous > 0 {
		// let the workers park first so that the pushes really have to wake them
		verifrt.WaitUntil(5*time.Second, func() bool { return rq.parkedCount() == k.Workers })
		barrier = &c05Barrier{need: int32(k.Rendezvous)}
		for i := 0; i < k.Rendezvous; i++ {
			tk := mk(0)
			tk.barrier = barrier
			expectedTotal += int64(tk.expected)
			d.schedule(tk)
		}
		// the rendezvous is judged before the bulk traffic starts
		if !verifrt.WaitUntil(25*time.Second, func() bool { return barrier.arrived.Load() >= barrier.need || barrier.failed.Load() }) || barrier.failed.Load() {
			g := rq.globalLen()
			parked := rq.parkedCount()
			if g > 0 && parked > 0 {
				r.Violation("ready-queue-worker-parked-while-work-queued", map[string]any{"knobs": k.String(), "seed": seed, "global": g, "parked": parked, "arrived": barrier.arrived.Load(), "need": barrier.need})
			} else {
				r.Inconclusive("C05 rendezvous watchdog without the structural predicate: global=%d parked=%d arrived=%d need=%d", g, parked, barrier.arrived.Load(), barrier.need)
			}
		}
		r.Count("rendezvous_cases", 1)
	}
	for p := 0; p < k.Pushers; p++ {
		wg.Add(1)
		go func(p int) {
			defer wg.Done()
			for _, tk := range perPusher[p] {
				d.schedule(tk)
				pushed.Add(1)
			}
		}(p)
	}
	closedEarly := false
	if k.CloseRace {
		// close while pushers may still be running: only "workers exit" and
		// "nothing taken twice" are judged then
		time.Sleep(time.Duration(rand.New(rand.NewSource(seed)).Intn(300)) * time.Microsecond)
		rq.close()
		closedEarly = true
	}
	wg.Wait()
	if g := rq.globalLen(); g > maxGlobal {
		maxGlobal = g
	}
	stuck := ""
	if !closedEarly {
		ok := verifrt.WaitUntil(40*time.Second, func() bool { return total.Load() >= expectedTotal })
		if !ok {
			// structural stuck predicate under the queue's own locks
			g := rq.globalLen()
			parked := rq.parkedCount()
			locals := 0
			for _, l := range rq.locals {
				locals += l.length()
			}
			if (g > 0 || locals > 0) && parked > 0 {
				stuck = fmt.Sprintf("work queued (global=%d locals=%d) while %d of %d workers are parked; taken=%d expected=%d", g, locals, parked, k.Workers, total.Load(), expectedTotal)
			} else if g == 0 && locals == 0 {
				stuck = fmt.Sprintf("tokens lost: rings empty, taken=%d expected=%d, parked=%d", total.Load(), expectedTotal, parked)
			} else {
				r.Inconclusive("C05 watchdog: taken=%d expected=%d global=%d locals=%d parked=%d (%s)", total.Load(), expectedTotal, g, locals, parked, k.String())
			}
		}
	}
	var yields, delays int64
	if k.Noise > 0 {
		yields, delays = verifrt.StopNoise()
	}
	// ledger
	lost, dup := 0, 0
	var wit []string
	for _, tk := range all {
		got := tk.taken.Load()
		if got > tk.expected {
			dup++
			if len(wit) < 5 {
				wit = append(wit, fmt.Sprintf("token %d taken %d times, pushed %d", tk.id, got, tk.expected))
			}
		} else if got < tk.expected && !closedEarly {
			lost++
			if len(wit) < 5 {
				wit = append(wit, fmt.Sprintf("token %d taken %d times, pushed %d", tk.id, got, tk.expected))
			}
		}
	}
	detail := map[string]any{"knobs": k.String(), "seed": seed, "hot_sites": hot, "witness": wit}
	if dup > 0 {
		r.Violation("ready-queue-duplicate-take", detail)
	}
	if lost > 0 && stuck == "" {
		stuck = "tokens not taken"
	}
	if stuck != "" {
		detail["stuck"] = stuck
		r.Violation("ready-queue-lost-or-stuck", detail)
	}
	if overlap.Load() > 0 {
		r.Violation("ready-queue-token-run-by-two-workers", detail)
	}
	// structural invariants at quiescence (all workers parked => nothing moves)
	if !closedEarly && stuck == "" {
		verifrt.WaitUntil(10*time.Second, func() bool { return rq.parkedCount() == k.Workers })
		rq.parkMu.Lock()
		gsize, gcount, parked := rq.global.size, int(rq.globalCount.Load()), rq.parked
		rq.parkMu.Unlock()
		if gsize != 0 || gcount != gsize {
			r.Violation("ready-queue-invariant-global", map[string]any{"knobs": k.String(), "global.size": gsize, "globalCount": gcount})
		}
		if parked != k.Workers {
			r.Violation("ready-queue-invariant-parked", map[string]any{"knobs": k.String(), "parked": parked, "workers": k.Workers})
		}
		for i, l := range rq.locals {
			l.mu.Lock()
			sz, sa := l.size, int(l.sizeAtomic.Load())
			l.mu.Unlock()
			if sz != 0 || sa != sz {
				r.Violation("ready-queue-invariant-local", map[string]any{"knobs": k.String(), "worker": i, "size": sz, "sizeAtomic": sa})
			}
		}
	}
	// close: every worker must exit
	if !closedEarly {
		rq.close()
	}
	if !verifrt.WaitUntil(30*time.Second, func() bool { return int(exited.Load()) == k.Workers }) {
		r.Violation("ready-queue-worker-not-exiting-after-close", map[string]any{"knobs": k.String(), "exited": exited.Load(), "workers": k.Workers, "parked": rq.parkedCount()})
	}
	rq.parkMu.Lock()
	grown := len(rq.global.buf)
	rq.parkMu.Unlock()
	nontrivial := grown > 64 || k.Burst > 0 || (k.Resched > 0 && k.Workers > 2)
	r.Case(k.String()+"/"+verifrt.Hash64s(seed), nontrivial)
	r.Count("tokens_taken", total.Load())
	r.Count("noise_yields", yields)
	r.Count("noise_delays_injected", delays)
	r.Max("max_global_ring_capacity", int64(grown))
	if sample {
		r.Sample(map[string]any{"knobs": k.String(), "taken": total.Load(), "expected": expectedTotal, "global_ring_capacity": grown, "hot_sites": hot})
	}
}
