//go:build verif

package actor

import (
	"bytes"
	"encoding/binary"
	"fmt"
	"math/rand"
	"reflect"
	"testing"
	"time"

	"github.com/tochemey/goakt/v4/internal/address"
	"github.com/tochemey/goakt/v4/internal/verifrt"
)

const (
	c25NameFirst = "abcdefghijklmnopqrstuvwxyzABCDEFGHIJKLMNOPQRSTUVWXYZ0123456789"
	c25NameRest  = c25NameFirst + "-_."
)

func c25Name(rng *rand.Rand, max int) string {
	l := 1 + rng.Intn(20)
	switch rng.Intn(12) {
	case 0:
		l = 1
	case 1:
		l = max
	}
	if l > max {
		l = max
	}
	b := make([]byte, l)
	b[0] = c25NameFirst[rng.Intn(len(c25NameFirst))]
	for i := 1; i < l; i++ {
		b[i] = c25NameRest[rng.Intn(len(c25NameRest))]
	}
	return string(b)
}

// c25Address generates a valid address whose host is a DNS name or an IPv4
// literal (the text form of IPv6 hosts is property C26's subject).
func c25Address(rng *rand.Rand) *address.Address {
	host := fmt.Sprintf("%d.%d.%d.%d", rng.Intn(256), rng.Intn(256), rng.Intn(256), rng.Intn(256))
	if rng.Intn(2) == 0 {
		host = []string{"localhost", "node-1.cluster.local", "a.b", "HOST", "x1"}[rng.Intn(5)]
	}
	port := []int{0, 1, 80, 65535, rng.Intn(65536)}[rng.Intn(5)]
	sys, name := c25Name(rng, 40), c25Name(rng, 255)
	if rng.Intn(3) == 0 {
		pn := c25Name(rng, 255)
		if pn == name {
			pn = "p" + pn[1:]
			if pn == name {
				pn = "q" + pn[1:]
			}
		}
		return address.NewWithParent(name, sys, host, port, address.New(pn, sys, host, port))
	}
	return address.New(name, sys, host, port)
}

func c25Recover(f func() (any, error)) (v any, err error, pan string) {
	defer func() {
		if rec := recover(); rec != nil {
			pan = fmt.Sprintf("%v\n%s", rec, verifrt.Stack())
		}
	}()
	v, err = f()
	return
}

// TestVerif_C25 (package actor): the internal Terminated and PoisonPill
// serializers.
func TestVerif_C25(t *testing.T) {
	r := verifrt.Start(t, "C25")
	defer r.Finish()
	r.Rule("[actor] round-trip case = one Terminated (valid generated actor path with DNS/IPv4 host, with/without parent, or no path; terminatedAt anywhere in the UnixNano range) or PoisonPill through its internal serializer: Deserialize(Serialize(m)) must succeed with the same dynamic type, a path equal by Path.Equals and by system/host/port/name/parent name, and the same instant; values the serializer does not support (other types, typed nil) must give an error; non-trivial = Serialize accepted it; distinct by frame bytes. hostile case = mutated frame (truncation, path length perturbation, bit flips, magic + garbage, frames of the other serializer) to both Deserialize under recover")
	r.Assume("Path.Equals plus the path accessors are the equality of actor paths (the incarnation id is not part of the wire form); hosts are DNS names or IPv4 literals")

	rng := r.Rand(2503)
	ts, pp := &terminatedSerializer{}, &poisonPillSerializer{}
	var frames [][]byte
	n := r.N(3000, 300000)
	for i := 0; i < n; i++ {
		if i%10 == 9 {
			// PoisonPill
			out, err, pan := c25Recover(func() (any, error) { return pp.Serialize(new(PoisonPill)) })
			if pan != "" || err != nil {
				r.Violation("serializer-roundtrip:poisonpill-not-accepted", map[string]any{"error": fmt.Sprint(err), "panic": pan})
				continue
			}
			frame := out.([]byte)
			got, err, pan := c25Recover(func() (any, error) { return pp.Deserialize(bytes.Clone(frame)) })
			if pan != "" || err != nil {
				r.Violation("serializer-roundtrip:own-output-rejected:poisonpill", map[string]any{"error": fmt.Sprint(err), "panic": pan, "frame": fmt.Sprintf("%x", frame)})
			} else if _, ok := got.(*PoisonPill); !ok || got == nil {
				r.Violation("serializer-roundtrip:dynamic-type-differs:poisonpill", map[string]any{"got_type": fmt.Sprintf("%T", got)})
			}
			frames = append(frames, frame)
			// unsupported values: an error, never bytes
			for _, bad := range []any{new(Terminated), nil, "x", PoisonPill{}, new(PostStart)} {
				if out, err, pan := c25Recover(func() (any, error) { return pp.Serialize(bad) }); pan != "" {
					r.Violation("serializer-panic:serialize:poisonpill", map[string]any{"type": fmt.Sprintf("%T", bad), "panic": pan})
				} else if err == nil {
					r.Violation("serializer-unsupported:bytes-instead-of-error:poisonpill", map[string]any{"type": fmt.Sprintf("%T", bad), "bytes": fmt.Sprintf("%x", out)})
				}
			}
			r.Case(fmt.Sprintf("pp/%d", i%3), true)
			continue
		}
		var p Path
		var addr *address.Address
		pathKind := "path"
		switch rng.Intn(12) {
		case 0:
			pathKind = "nil-path"
		case 1:
			pathKind = "typed-nil-path"
			p = (*path)(nil)
		default:
			addr = c25Address(rng)
			if err := addr.Validate(); err != nil {
				r.Count("generated_address_rejected_by_validate", 1)
				continue
			}
			p = newPath(addr)
		}
		var at time.Time
		switch rng.Intn(5) {
		case 0:
			at = time.Now()
		case 1:
			at = time.Unix(0, rng.Int63()) // up to year 2262
		case 2:
			at = time.Unix(0, -rng.Int63()) // down to year 1678
		case 3:
			at = time.Unix(rng.Int63n(4102444800), 0).In(time.FixedZone("z", 3600*(rng.Intn(25)-12)))
		default:
			at = time.Unix(rng.Int63n(4102444800), rng.Int63n(1e9)).UTC()
		}
		msg := &Terminated{actorPath: p, terminatedAt: at}
		det := func(extra map[string]any) map[string]any {
			d := map[string]any{"path": pathString(p), "path_kind": pathKind, "terminated_at": at.UTC().Format(time.RFC3339Nano)}
			for k, v := range extra {
				d[k] = v
			}
			return d
		}
		out, err, pan := c25Recover(func() (any, error) { return ts.Serialize(msg) })
		if pan != "" {
			r.Violation("serializer-panic:serialize:terminated", det(map[string]any{"panic": pan}))
			continue
		}
		if err != nil {
			r.Violation("serializer-roundtrip:terminated-not-accepted", det(map[string]any{"error": err.Error()}))
			continue
		}
		frame := out.([]byte)
		if len(frames) < 500 {
			frames = append(frames, frame)
		}
		gotAny, err, pan := c25Recover(func() (any, error) { return ts.Deserialize(bytes.Clone(frame)) })
		switch {
		case pan != "":
			r.Violation("serializer-panic:deserialize-own-output:terminated", det(map[string]any{"panic": pan, "frame": fmt.Sprintf("%x", frame)}))
		case err != nil:
			r.Violation("serializer-roundtrip:own-output-rejected:terminated", det(map[string]any{"error": err.Error(), "frame": fmt.Sprintf("%x", frame)}))
		default:
			got, ok := gotAny.(*Terminated)
			if !ok || got == nil {
				r.Violation("serializer-roundtrip:dynamic-type-differs:terminated", det(map[string]any{"got_type": fmt.Sprintf("%T", gotAny)}))
				break
			}
			if !got.TerminatedAt().Equal(at) {
				r.Violation("serializer-roundtrip:message-differs:terminated:time", det(map[string]any{"got": got.TerminatedAt().UTC().Format(time.RFC3339Nano)}))
			}
			gp := got.ActorPath()
			if addr == nil {
				if gp != nil && !(reflect.ValueOf(gp).Kind() == reflect.Pointer && reflect.ValueOf(gp).IsNil()) {
					r.Violation("serializer-roundtrip:message-differs:terminated:path-invented", det(map[string]any{"got_path": gp.String()}))
				}
				break
			}
			wantParent, gotParent := "", ""
			if p.Parent() != nil {
				wantParent = p.Parent().Name()
			}
			if gp != nil && gp.Parent() != nil {
				gotParent = gp.Parent().Name()
			}
			if gp == nil || !p.Equals(gp) || !gp.Equals(p) || gp.Host() != p.Host() || gp.Port() != p.Port() || gp.Name() != p.Name() || gp.System() != p.System() || gp.HostPort() != p.HostPort() || wantParent != gotParent {
				r.Violation("serializer-roundtrip:message-differs:terminated:path", det(map[string]any{"got_path": pathString(gp), "got_parent": gotParent, "want_parent": wantParent}))
			}
		}
		r.Case("t/"+string(frame), true)
		if i < 3 {
			r.Sample(det(map[string]any{"frame_len": len(frame)}))
		}
		if i%50 == 0 {
			for _, bad := range []any{(*Terminated)(nil), new(PoisonPill), nil, Terminated{}, 7} {
				if out, err, pan := c25Recover(func() (any, error) { return ts.Serialize(bad) }); pan != "" {
					r.Violation("serializer-panic:serialize:terminated", map[string]any{"type": fmt.Sprintf("%T", bad), "panic": pan})
				} else if err == nil {
					r.Violation("serializer-unsupported:bytes-instead-of-error:terminated", map[string]any{"type": fmt.Sprintf("%T", bad), "bytes": fmt.Sprintf("%x", out)})
				} else {
					r.Count("unsupported_rejected", 1)
				}
			}
		}
	}

	if len(frames) == 0 {
		r.Inconclusive("no frame for the hostile part")
		return
	}
	h := r.N(30000, 3000000)
	classes := map[string]int64{}
	var accepted, rejected int64
	for i := 0; i < h; i++ {
		b := bytes.Clone(frames[rng.Intn(len(frames))])
		class := ""
		switch rng.Intn(8) {
		case 0:
			b, class = b[:rng.Intn(len(b))], "truncate"
		case 1:
			if len(b) >= 12 {
				cur := binary.BigEndian.Uint32(b[8:])
				v := []uint32{0, 1, cur + 1, cur - 1, 1 << 31, 1<<32 - 1, 1<<32 - 9, 1<<32 - 21, uint32(len(b)), uint32(len(b) - 20)}[rng.Intn(10)]
				binary.BigEndian.PutUint32(b[8:], v)
			}
			class = "path-len"
		case 2:
			for k := 1 + rng.Intn(3); k > 0; k-- {
				b[rng.Intn(len(b))] ^= byte(1 << uint(rng.Intn(8)))
			}
			class = "bitflip"
		case 3:
			g := make([]byte, rng.Intn(64))
			rng.Read(g)
			b, class = append(append([]byte{}, terminatedMagic[:]...), g...), "magic+garbage"
		case 4:
			g := make([]byte, rng.Intn(40))
			rng.Read(g)
			b, class = g, "garbage"
		case 5:
			// a path section that is not an address, with consistent lengths
			junk := []string{"", "goakt://", "goakt://s@h:1", "goakt://s@h:x/n", "http://s@h:1/n", "goakt://s@h:1/a/b/c", "goakt://s@h:99999999999/n", "\xff\xfe"}[rng.Intn(8)]
			nb := append([]byte{}, terminatedMagic[:]...)
			nb = binary.BigEndian.AppendUint32(nb, uint32(len(junk)))
			nb = append(nb, junk...)
			nb = binary.BigEndian.AppendUint64(nb, rng.Uint64())
			b, class = nb, "bad-path"
		case 6:
			b, class = append(b, byte(rng.Intn(256))), "one-extra-byte"
		default:
			b, class = append(append([]byte{}, poisonPillMagic[:]...), b[rng.Intn(len(b)):]...), "poison-magic+tail"
		}
		classes[class]++
		for _, s := range []struct {
			name string
			f    func([]byte) (any, error)
		}{{"terminated", ts.Deserialize}, {"poisonpill", pp.Deserialize}} {
			data := bytes.Clone(b)
			got, err, pan := c25Recover(func() (any, error) { return s.f(data) })
			switch {
			case pan != "":
				r.Violation("serializer-panic:deserialize:"+s.name, map[string]any{"input": fmt.Sprintf("%x", b), "class": class, "panic": pan})
			case err == nil && (got == nil || reflect.ValueOf(got).IsNil()):
				r.Violation("serializer-hostile:nil-without-error:"+s.name, map[string]any{"input": fmt.Sprintf("%x", b), "class": class})
			case err == nil && (class == "truncate" || class == "one-extra-byte" || class == "bad-path" && s.name == "terminated" && binary.BigEndian.Uint32(b[8:]) > 0):
				r.Violation("serializer-hostile:malformed-frame-accepted:"+s.name, map[string]any{"input": fmt.Sprintf("%x", b), "class": class})
			case err == nil:
				accepted++
			default:
				rejected++
			}
		}
		r.Case("h/"+string(b), true)
	}
	for k, v := range classes {
		r.Count("hostile_"+k, v)
	}
	r.Count("hostile_deserialize_accepted", accepted)
	r.Count("hostile_deserialize_rejected", rejected)
}
