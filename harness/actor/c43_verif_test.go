//go:build verif

package actor

import (
	"testing"

	"github.com/tochemey/goakt/v4/internal/verifrt"
)

// TestVerif_C43: the producer controller never sends a sequenced message beyond
// the highest sequence the consumer controller has requested, and the
// consumer-side buffer never exceeds the flow-control window. The monitors ride
// on the C42 scenarios (same runner), generated with emphasis on small windows,
// chunked messages, slow producer acknowledgements and reordered Requests.
func TestVerif_C43(t *testing.T) {
	r := verifrt.Start(t, "C43")
	defer r.Finish()
	r.Rule("case = the C42 point-to-point scenario (real controllers, seeded drop/duplicate/delay/late-duplicate faults on controller traffic) generated with windows in {1,2,3,4,5,8}, 60% chunked payloads (a chunked message spans several sequence numbers, the only way the stored sequence can pass the demand), slow StoredAck and slow consumers. Oracle, evaluated by the intercept hook on the consumer controller's own turn: (a) every SequencedMessage the producer controller sent (first arrival, before the fault decision) has seq <= the highest requestUpToSeq the consumer controller has ever issued; (b) len(receive buffer) <= window at every turn. non-trivial = at least one fault applied and the producer was observed limited by demand (stored sequence at the demand edge) at least once; distinct by knobs+seed")
	r.Assume("reading the consumer controller's unexported fields from the intercept hook is race-free because the hook runs on that controller's turn")
	defer c42InstallHook()()
	rng := r.Rand(43)
	n := r.N(64, 3000)
	type cs struct {
		k    c42Knobs
		seed int64
	}
	cases := make([]cs, n)
	for i := range cases {
		cases[i] = cs{c42GenKnobs(rng, "c43", !r.Quick()), rng.Int63()}
	}
	samples := 3
	c42RunParallel(2, n, func(i int) *c42Obs {
		return c42RunCase(t, cases[i].k, cases[i].seed)
	}, func(i int, o *c42Obs) {
		r.Case(o.Knobs+"/"+verifrt.Hash64s(o.Seed), o.Faults > 0 && (o.DemandLimited > 0 || o.AtDemandEdge > 0))
		c42Report(r, "C43", o, &samples)
	})
	if c42HookPanics.Load() > 0 {
		r.Inconclusive("harness intercept hook panicked %d times: %v", c42HookPanics.Load(), c42HookPanic.Load())
	}
}
