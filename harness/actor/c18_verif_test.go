//go:build verif

package actor

import (
	"context"
	"fmt"
	"math/rand"
	"sync"
	"sync/atomic"
	"testing"
	"time"

	"github.com/tochemey/goakt/v4/internal/verifrt"
)

// C18: undeliverable messages surface as dead letters exactly once.
//
// Ledger keyed by message identity. Drop causes of this file (all local):
//   - Tell accepted (nil) but the receiver's non-blocking bounded mailbox was full
//     (NonBlockingBounded, BoundedPriority, BoundedStablePriority);
//   - the handler called ctx.Unhandled().
// For every accepted message: (handled, dead letters) is (1,0) or (0,1); a message
// the handler declared unhandled has exactly one dead letter. Every dead letter
// carries the original message, the sender's path and the receiver's path, and the
// counts reported by ActorSystem.Metric / PID.Metric equal the number of Deadletter
// events published on the event stream.

type c18Msg struct {
	ID        int
	Sender    int
	Unhandled bool
}

type c18Ledger struct {
	handled   []atomic.Int32 // ordinary handling
	unhandled []atomic.Int32 // handler called ctx.Unhandled()
	dwell     time.Duration
	gate      chan struct{} // when non-nil the receiver blocks on it once (mailbox fills up)
	gated     atomic.Bool
}

type c18Receiver struct{ led *c18Ledger }

func (a *c18Receiver) PreStart(*Context) error { return nil }
func (a *c18Receiver) PostStop(*Context) error { return nil }
func (a *c18Receiver) Receive(ctx *ReceiveContext) {
	m, ok := ctx.Message().(*c18Msg)
	if !ok {
		return
	}
	led := a.led
	if led.gate != nil && led.gated.CompareAndSwap(false, true) {
		<-led.gate
	}
	if m.Unhandled {
		led.unhandled[m.ID].Add(1)
		ctx.Unhandled()
		return
	}
	led.handled[m.ID].Add(1)
	if led.dwell > 0 {
		t0 := time.Now()
		for time.Since(t0) < led.dwell {
		}
	}
}

// c18SenderActor tells its batch to the target from inside its own handler, so the
// dead letters carry its path as the sender.
type c18SenderActor struct {
	target   *PID
	msgs     []*c18Msg
	accepted []atomic.Bool
	done     chan struct{}
}

func (a *c18SenderActor) PreStart(*Context) error { return nil }
func (a *c18SenderActor) PostStop(*Context) error { return nil }
func (a *c18SenderActor) Receive(ctx *ReceiveContext) {
	if s, ok := ctx.Message().(string); ok && s == "go" {
		for _, m := range a.msgs {
			if err := ctx.Self().Tell(context.Background(), a.target, m); err == nil {
				a.accepted[m.ID].Store(true)
			}
		}
		close(a.done)
	}
}

type c18Healthy struct{ n atomic.Int64 }

func (a *c18Healthy) PreStart(*Context) error { return nil }
func (a *c18Healthy) PostStop(*Context) error { return nil }
func (a *c18Healthy) Receive(ctx *ReceiveContext) {
	if _, ok := ctx.Message().(*c18Msg); ok {
		a.n.Add(1)
	}
}

type c18Knobs struct {
	Mailbox      string
	Capacity     int
	GoSenders    int
	ActorSenders int
	PerSender    int
	DwellUS      int
	UnhandledPct int
	Gate         bool
	Healthy      bool
}

func (k c18Knobs) String() string {
	return fmt.Sprintf("mb=%s cap=%d gs=%d as=%d n=%d dwell=%dus unh=%d%% gate=%v healthy=%v", k.Mailbox, k.Capacity, k.GoSenders, k.ActorSenders, k.PerSender, k.DwellUS, k.UnhandledPct, k.Gate, k.Healthy)
}

type c18Obs struct {
	Accepted     int
	Rejected     int
	Handled      int
	UnhandledN   int
	DroppedFull  int
	Events       int
	EventsOurs   int
	SysCount     int64
	ActorCount   uint64
	Viol         []verifrt.Violation
	Inconc       string
	NonTrivial   bool
}

func c18GenKnobs(rng *rand.Rand) c18Knobs {
	k := c18Knobs{
		Mailbox:      []string{"nonblocking", "boundedpriority", "boundedstablepriority", "nonblocking", "unbounded"}[rng.Intn(5)],
		Capacity:     []int{1, 2, 8, 32, 128}[rng.Intn(5)],
		GoSenders:    rng.Intn(5),
		ActorSenders: rng.Intn(4),
		PerSender:    []int{1, 5, 40, 150}[rng.Intn(4)],
		DwellUS:      []int{0, 20, 200}[rng.Intn(3)],
		UnhandledPct: []int{0, 0, 10, 50, 100}[rng.Intn(5)],
		Gate:         rng.Intn(3) == 0,
		Healthy:      rng.Intn(2) == 0,
	}
	if k.GoSenders+k.ActorSenders == 0 {
		k.GoSenders = 1
	}
	return k
}

func c18Idle(p *PID) bool {
	return p.mailbox.IsEmpty() && p.systemMailbox.IsEmpty() && vfSchedStateName(p) == "idle"
}

func c18RunCase(t *testing.T, k c18Knobs, seed int64) (obs c18Obs) {
	ctx := context.Background()
	rng := rand.New(rand.NewSource(seed))
	sys := vfNewSystem(t)
	defer vfStop(sys)
	sub, err := sys.Subscribe()
	if err != nil {
		t.Fatalf("c18 subscribe: %v", err)
	}

	senders := k.GoSenders + k.ActorSenders
	total := senders * k.PerSender
	led := &c18Ledger{handled: make([]atomic.Int32, total), unhandled: make([]atomic.Int32, total), dwell: time.Duration(k.DwellUS) * time.Microsecond}
	if k.Gate {
		led.gate = make(chan struct{})
	}
	prio := func(a, b any) bool {
		x, ok1 := a.(*c18Msg)
		y, ok2 := b.(*c18Msg)
		return ok1 && ok2 && x.ID%3 > y.ID%3
	}
	target, err := sys.Spawn(ctx, "c18-target", &c18Receiver{led: led}, WithMailbox(vfNewMailbox(k.Mailbox, k.Capacity, prio)), WithLongLived())
	if err != nil {
		t.Fatalf("c18 spawn: %v", err)
	}
	// wait for PostStart to be consumed so that the capacity is all ours
	verifrt.WaitUntil(10*time.Second, func() bool { return c18Idle(target) })

	msgs := make([][]*c18Msg, senders)
	all := make([]*c18Msg, 0, total)
	id := 0
	for s := 0; s < senders; s++ {
		for q := 0; q < k.PerSender; q++ {
			m := &c18Msg{ID: id, Sender: s, Unhandled: rng.Intn(100) < k.UnhandledPct}
			msgs[s] = append(msgs[s], m)
			all = append(all, m)
			id++
		}
	}
	accepted := make([]atomic.Bool, total)
	expectSender := make([]string, senders)
	noSender := sys.NoSender().Path().String()

	var healthy *c18Healthy
	var healthyPID *PID
	stopHealthy := make(chan struct{})
	var hwg sync.WaitGroup
	if k.Healthy {
		healthy = &c18Healthy{}
		healthyPID, err = sys.Spawn(ctx, "c18-healthy", healthy, WithLongLived())
		if err != nil {
			t.Fatalf("c18 spawn healthy: %v", err)
		}
		hwg.Add(1)
		go func() {
			defer hwg.Done()
			for i := 0; ; i++ {
				select {
				case <-stopHealthy:
					return
				default:
				}
				_ = Tell(ctx, healthyPID, &c18Msg{ID: -1})
				if i%64 == 0 {
					time.Sleep(50 * time.Microsecond)
				}
			}
		}()
	}

	var wg sync.WaitGroup
	var actorSenders []*c18SenderActor
	var senderPIDs []*PID
	for s := 0; s < senders; s++ {
		if s < k.GoSenders {
			expectSender[s] = noSender
			continue
		}
		sa := &c18SenderActor{target: target, msgs: msgs[s], accepted: accepted, done: make(chan struct{})}
		spid, err := sys.Spawn(ctx, fmt.Sprintf("c18-sender-%d", s), sa, WithLongLived())
		if err != nil {
			t.Fatalf("c18 spawn sender: %v", err)
		}
		expectSender[s] = spid.Path().String()
		actorSenders = append(actorSenders, sa)
		senderPIDs = append(senderPIDs, spid)
	}
	for s := 0; s < k.GoSenders; s++ {
		wg.Add(1)
		go func(s int) {
			defer wg.Done()
			for _, m := range msgs[s] {
				if err := Tell(ctx, target, m); err == nil {
					accepted[m.ID].Store(true)
				}
			}
		}(s)
	}
	for _, spid := range senderPIDs {
		if err := Tell(ctx, spid, "go"); err != nil {
			t.Fatalf("c18 tell sender: %v", err)
		}
	}
	wg.Wait()
	for _, sa := range actorSenders {
		select {
		case <-sa.done:
		case <-time.After(60 * time.Second):
			obs.Inconc = "sender actor did not finish within 60s"
		}
	}
	if led.gate != nil {
		close(led.gate)
	}
	close(stopHealthy)
	hwg.Wait()

	// quiescence: receiver, senders and the dead-letter actor idle; then the subscriber is drained
	dl := sys.getDeadletter()
	quiet := func() bool {
		if !c18Idle(target) || !c18Idle(dl) {
			return false
		}
		for _, p := range senderPIDs {
			if !c18Idle(p) {
				return false
			}
		}
		return true
	}
	if !verifrt.WaitUntil(60*time.Second, quiet) {
		obs.Inconc = "no quiescence within 60s"
		return obs
	}

	type dlSeen struct {
		n        int
		sender   string
		receiver string
		reason   string
	}
	seen := map[int]*dlSeen{}
	var foreign []string
	drain := func() int {
		n := 0
		for ev := range sub.Iterator() {
			d, ok := ev.Payload().(*Deadletter)
			if !ok {
				continue
			}
			n++
			obs.Events++
			m, ok := d.Message().(*c18Msg)
			if !ok || m.ID < 0 || m.ID >= total || all[m.ID] != m {
				foreign = append(foreign, fmt.Sprintf("%T to %v: %s", d.Message(), d.Receiver(), d.Reason()))
				continue
			}
			obs.EventsOurs++
			s := seen[m.ID]
			if s == nil {
				s = &dlSeen{}
				seen[m.ID] = s
			}
			s.n++
			if d.Sender() != nil {
				s.sender = d.Sender().String()
			}
			if d.Receiver() != nil {
				s.receiver = d.Receiver().String()
			}
			s.reason = d.Reason()
		}
		return n
	}
	for {
		drain()
		time.Sleep(5 * time.Millisecond)
		if quiet() && drain() == 0 {
			break
		}
	}

	// counts reported by the runtime
	if m := sys.Metric(ctx); m != nil {
		obs.SysCount = m.DeadlettersCount()
	}
	if am := target.Metric(ctx); am != nil {
		obs.ActorCount = am.DeadlettersCount()
	}
	// the metric queries are asks to the dead-letter actor: nothing new may have been published
	if extra := drain(); extra != 0 {
		obs.Inconc = fmt.Sprintf("%d dead letters published after quiescence", extra)
		return obs
	}

	targetPath := target.Path().String()
	viol := func(sig string, detail map[string]any) {
		detail["knobs"] = k.String()
		detail["seed"] = seed
		obs.Viol = append(obs.Viol, verifrt.Violation{Sig: sig, Detail: detail})
	}
	badCount, badIdentity := 0, 0
	for i, m := range all {
		acc := accepted[i].Load()
		h, u := int(led.handled[i].Load()), int(led.unhandled[i].Load())
		n := 0
		var s *dlSeen
		if s = seen[i]; s != nil {
			n = s.n
		}
		if !acc {
			obs.Rejected++
			continue
		}
		obs.Accepted++
		obs.Handled += h
		obs.UnhandledN += u
		expect := -1
		cause := ""
		switch {
		case h+u > 1:
			cause = "handled-more-than-once"
		case h == 1:
			expect, cause = 0, "handled"
		case u == 1:
			expect, cause = 1, "unhandled"
		default:
			expect, cause = 1, "mailbox-full"
			obs.DroppedFull++
		}
		if expect >= 0 && n != expect && badCount < 5 {
			badCount++
			viol(fmt.Sprintf("deadletter-count:%s:%d-instead-of-%d:%s", cause, n, expect, k.Mailbox), map[string]any{"message_id": m.ID, "sender": m.Sender, "handled": h, "declared_unhandled": u, "deadletters": n})
		}
		if n >= 1 && badIdentity < 5 {
			if s.receiver != targetPath {
				badIdentity++
				viol("deadletter-wrong-receiver:"+cause, map[string]any{"message_id": m.ID, "receiver": s.receiver, "expected": targetPath})
			}
			if s.sender != expectSender[m.Sender] {
				badIdentity++
				viol("deadletter-wrong-sender:"+cause, map[string]any{"message_id": m.ID, "sender": s.sender, "expected": expectSender[m.Sender]})
			}
		}
	}
	if obs.SysCount != int64(obs.Events) {
		viol("system-deadletter-count-mismatch", map[string]any{"metric": obs.SysCount, "published_events": obs.Events, "foreign": foreign})
	}
	if obs.ActorCount != uint64(obs.EventsOurs) {
		// events of ours all name the target as receiver (checked above)
		viol("actor-deadletter-count-mismatch", map[string]any{"metric": obs.ActorCount, "published_events_for_actor": obs.EventsOurs})
	}
	obs.NonTrivial = obs.EventsOurs > 0
	return obs
}

func TestVerif_C18(t *testing.T) {
	r := verifrt.Start(t, "C18")
	defer r.Finish()
	r.Rule("case = fresh system, one receiver with a non-blocking bounded mailbox (NonBlockingBounded / BoundedPriority / BoundedStablePriority, capacity 1-128; unbounded as the no-drop control), 0-4 goroutine senders (sender = NoSender) and 0-3 actor senders (sender = their path) x 1-150 messages with unique ids, handler dwell, 0-100% of messages declared Unhandled by the handler, optionally the receiver gated while the burst arrives, optionally concurrent healthy traffic to another actor; subscriber attached before traffic. Oracle = per-message ledger at quiescence (receiver, senders and dead-letter actor idle, subscriber drained): accepted and handled once -> 0 dead letters; accepted and not handled (mailbox full) -> exactly 1; declared Unhandled -> exactly 1; each dead letter names the original message (pointer), the sender's path and the receiver's path; ActorSystem.Metric().DeadlettersCount() == Deadletter events published, PID.Metric().DeadlettersCount() == events for that receiver. non-trivial = at least one dead letter of the case's own messages was published; distinct by knob tuple and seed")
	rng := r.Rand(18)
	n := r.N(120, 4000)
	for i := 0; i < n; i++ {
		k := c18GenKnobs(rng)
		seed := rng.Int63()
		obs := c18RunCase(t, k, seed)
		r.Case(k.String()+"/"+verifrt.Hash64s(seed), obs.NonTrivial)
		r.Count("messages_accepted", int64(obs.Accepted))
		r.Count("messages_rejected_by_tell", int64(obs.Rejected))
		r.Count("messages_handled", int64(obs.Handled))
		r.Count("messages_declared_unhandled", int64(obs.UnhandledN))
		r.Count("messages_dropped_mailbox_full", int64(obs.DroppedFull))
		r.Count("deadletter_events", int64(obs.Events))
		for _, v := range obs.Viol {
			r.Violation(v.Sig, v.Detail)
		}
		if obs.Inconc != "" {
			r.Inconclusive("%s (%s)", obs.Inconc, k.String())
		}
		if i < 5 {
			r.Sample(map[string]any{"knobs": k.String(), "accepted": obs.Accepted, "handled": obs.Handled, "unhandled": obs.UnhandledN, "dropped_full": obs.DroppedFull, "events": obs.Events, "system_count": obs.SysCount, "actor_count": obs.ActorCount})
		}
	}
}
