//go:build verif

package actor

import (
	"testing"

	"github.com/tochemey/goakt/v4/internal/verifrt"
)

// TestVerif_C09: children-first PostStop order, "nothing of the subtree runs or
// resolves when the stop returns" (judged by the stopping goroutine itself), and
// liveness-vs-registration plus structural audit of the tree at death-watch
// quiescence, over random trees and concurrent overlapping stops/spawns/restarts.
func TestVerif_C09(t *testing.T) {
	r := verifrt.Start(t, "C09")
	defer r.Finish()
	r.Rule("case = random tree (1-2 roots, depth<=4, width<=4, <=22 nodes) on a fresh actor system + an operation mix in {one stop at a time, 2-6 goroutines of overlapping stops (Kill, PID.Stop by the parent, PID.Shutdown, PoisonPill, ctx-stop from the parent's turn, supervisor Stop directive), stops+SpawnChild, stops+Restart, all, then ActorSystem.Stop, all workers stopping one and the same node repeatedly}; oracle = PostStop order over the hook log using the name-encoded ancestry, IsRunning/ActorOf of every subtree member when a synchronous stop returns, liveness gauge vs tree registration and ActorOf at death-watch quiescence, structural audit of pid_tree (indexes, parent/descendant links, watcher symmetry, count); non-trivial = two stop operations on an ancestor/descendant (or same) pair overlapped in time, or (mix single) a stop of a node with descendants returned and was judged; distinct by knob tuple and seed")
	rng := r.Rand(9)
	n := r.N(80, 2400)
	for i := 0; i < n; i++ {
		k := c09GenKnobs(rng, i+r.Batch*3)
		seed := rng.Int63()
		obs := c09RunCase(t, k, seed)
		nontrivial := obs.Overlapped || (k.Mix == "single" && obs.ImmChecks > 1)
		r.Case(k.String()+"/"+verifrt.Hash64s(seed), nontrivial)
		r.Count("tree_nodes_built", int64(obs.Nodes))
		r.Count("hook_events_logged", int64(obs.Events))
		r.Count("stop_operations_completed", int64(obs.StopsOK))
		r.Count("immediate_checks_after_stop_return", int64(obs.ImmChecks))
		r.Count("tree_nodes_audited", int64(obs.AuditNodes))
		r.Count("noise_delays_injected", obs.Delays)
		if obs.Overlapped {
			r.Count("cases_with_overlapping_subtree_stops", 1)
		}
		if obs.Watchdog != "" {
			r.Inconclusive("%s [%s seed=%d]", obs.Watchdog, k.String(), seed)
		}
		for pi, ms := range obs.PhaseMs {
			r.Count([]string{"ms_build", "ms_ops", "ms_async_wait", "ms_quiesce", "ms_judge"}[pi], ms)
		}
		r.Max("max_case_ms", obs.WallMs)
		r.Count("total_case_ms", obs.WallMs)
		r.Count("zombie_incarnations_after_failed_restart_not_judged", int64(obs.Zombies))
		seen := map[string]bool{}
		for _, f := range obs.Findings {
			if f.Sig == "watchdog" {
				r.Inconclusive("%s [%s seed=%d]", f.Detail, k.String(), seed)
				continue
			}
			if seen[f.Sig] {
				continue
			}
			seen[f.Sig] = true
			r.Violation(f.Sig, map[string]any{"knobs": k.String(), "seed": seed, "finding": f.Detail, "ops": obs.Ops, "hot_sites": obs.HotSites})
		}
		if i < 3 {
			r.Sample(map[string]any{"knobs": k.String(), "nodes": obs.Nodes, "ops": obs.Ops, "findings": len(obs.Findings), "hot_sites": obs.HotSites})
		}
	}
}
