//go:build verif

package actor

import (
	"bytes"
	"context"
	"encoding/binary"
	"fmt"
	"math/rand"
	"sort"
	"sync"
	"sync/atomic"
	"testing"
	"time"

	"google.golang.org/protobuf/types/known/wrapperspb"

	"github.com/tochemey/goakt/v4/internal/commands"
	"github.com/tochemey/goakt/v4/internal/verifrt"
)

// Shared machinery of C42 (ordered, gap-free, eventually confirmed reliable
// delivery under message faults), C43 (producer never outruns the consumer's
// demand) and C44 (work-pulling). It has three parts:
//
//   - the intercept dispatcher: one process-wide intercept hook that routes each
//     controller message to the scenario owning the actor system it runs in;
//   - c42Faults: the seeded fault injector (drop / duplicate / delay / late
//     duplicate) for protocol messages exchanged between controllers;
//   - c42Case: one point-to-point scenario (producer endpoint, consumer endpoint,
//     their system-owned controllers) with the C42 and C43 monitors.

// ---------------------------------------------------------------------------
// intercept dispatcher
// ---------------------------------------------------------------------------

type c42Interceptor interface {
	c42Intercept(controller any, ctx *ReceiveContext) bool
}

var (
	c42Scenarios  sync.Map // ActorSystem -> c42Interceptor
	c42HookPanics atomic.Int64
	c42HookPanic  atomic.Value // string
)

// c42InstallHook installs the dispatcher; the returned function removes it.
func c42InstallHook() func() {
	SetVerifInterceptHook(func(controller any, ctx *ReceiveContext) (swallow bool) {
		defer func() {
			if p := recover(); p != nil {
				// a harness bug must not look like a controller failure
				c42HookPanics.Add(1)
				c42HookPanic.Store(fmt.Sprintf("%v\n%s", p, verifrt.Stack()))
				swallow = false
			}
		}()
		self := ctx.Self()
		if self == nil {
			return false
		}
		v, ok := c42Scenarios.Load(self.ActorSystem())
		if !ok {
			return false
		}
		return v.(c42Interceptor).c42Intercept(controller, ctx)
	})
	return func() { SetVerifInterceptHook(nil) }
}

// ---------------------------------------------------------------------------
// fault injector
// ---------------------------------------------------------------------------

type c42FaultKind uint8

const (
	c42FNone c42FaultKind = iota
	c42FDrop
	c42FDup
	c42FDelay
	c42FDupLate
)

func (k c42FaultKind) String() string {
	switch k {
	case c42FDrop:
		return "drop"
	case c42FDup:
		return "dup"
	case c42FDelay:
		return "delay"
	case c42FDupLate:
		return "duplate"
	}
	return "none"
}

type c42FaultRec struct {
	Idx  int64  `json:"idx"`
	Kind string `json:"kind"`
	At   string `json:"at"`
	Msg  string `json:"msg"`
}

type c42Deferred struct {
	sender, to *PID
	msg        any
	relIdx     int64
	relAt      time.Time
}

// c42Faults decides, for every protocol message that reaches a controller for
// the first time, whether it is dropped, duplicated, delayed (reordered) or
// duplicated late. Re-injected copies are recognised by pointer identity and are
// never faulted again, so every fault consumes budget and the budget is finite.
type c42Faults struct {
	mu       sync.Mutex
	rng      *rand.Rand
	budget   int
	perMille int
	weights  [4]int                 // drop, dup, delay, duplate
	place    map[int64]c42FaultKind // exhaustive placement mode (index -> fault); nil = random mode
	placeMax int64
	reinject map[any]int
	deferred []c42Deferred
	idx      int64
	applied  [5]int64
	log      []c42FaultRec
	activity atomic.Int64 // bumps on every fault applied and every deferred release
	stop     chan struct{}
	done     chan struct{}
}

func c42NewFaults(seed int64, budget, perMille int, weights [4]int, place map[int64]c42FaultKind) *c42Faults {
	f := &c42Faults{
		rng:      rand.New(rand.NewSource(seed)),
		budget:   budget,
		perMille: perMille,
		weights:  weights,
		place:    place,
		reinject: map[any]int{},
		stop:     make(chan struct{}),
		done:     make(chan struct{}),
	}
	for i := range place {
		if i > f.placeMax {
			f.placeMax = i
		}
	}
	go f.run()
	return f
}

// judge is called from the intercept hook on the receiving controller's turn.
// original reports whether this is the first arrival of this message instance
// (false for copies the injector itself re-told).
func (f *c42Faults) judge(self, sender *PID, msg any, at string, desc string, allow bool) (swallow, original bool) {
	f.mu.Lock()
	if n := f.reinject[msg]; n > 0 {
		if n == 1 {
			delete(f.reinject, msg)
		} else {
			f.reinject[msg] = n - 1
		}
		f.mu.Unlock()
		return false, false
	}
	f.idx++
	idx := f.idx
	kind := c42FNone
	if f.place != nil {
		kind = f.place[idx]
	} else if allow && f.budget > 0 && f.rng.Intn(1000) < f.perMille {
		total := f.weights[0] + f.weights[1] + f.weights[2] + f.weights[3]
		if total > 0 {
			x := f.rng.Intn(total)
			for i, w := range f.weights {
				if x < w {
					kind = c42FaultKind(i + 1)
					break
				}
				x -= w
			}
		}
		if kind != c42FNone {
			f.budget--
		}
	}
	if kind == c42FNone || sender == nil {
		f.mu.Unlock()
		return false, true
	}
	f.applied[kind]++
	if len(f.log) < 64 {
		f.log = append(f.log, c42FaultRec{Idx: idx, Kind: kind.String(), At: at, Msg: desc})
	}
	switch kind {
	case c42FDrop:
		f.mu.Unlock()
		f.activity.Add(1)
		return true, true
	case c42FDup:
		f.reinject[msg]++
		f.mu.Unlock()
		f.activity.Add(1)
		if err := sender.Tell(context.Background(), self, msg); err != nil {
			f.unexpect(msg)
		}
		return false, true
	case c42FDelay, c42FDupLate:
		f.deferred = append(f.deferred, c42Deferred{
			sender: sender, to: self, msg: msg,
			relIdx: idx + 1 + int64(f.rng.Intn(10)),
			relAt:  time.Now().Add(time.Duration(3+f.rng.Intn(70)) * time.Millisecond),
		})
		f.mu.Unlock()
		f.activity.Add(1)
		return kind == c42FDelay, true
	}
	f.mu.Unlock()
	return false, true
}

func (f *c42Faults) unexpect(msg any) {
	f.mu.Lock()
	if n := f.reinject[msg]; n > 1 {
		f.reinject[msg] = n - 1
	} else {
		delete(f.reinject, msg)
	}
	f.mu.Unlock()
}

// run releases deferred messages: after the scripted number of further protocol
// messages or after the scripted delay, whichever comes first.
func (f *c42Faults) run() {
	defer close(f.done)
	tk := time.NewTicker(time.Millisecond)
	defer tk.Stop()
	for {
		select {
		case <-f.stop:
			return
		case <-tk.C:
		}
		var due []c42Deferred
		now := time.Now()
		f.mu.Lock()
		keep := f.deferred[:0]
		for _, d := range f.deferred {
			if f.idx >= d.relIdx || !now.Before(d.relAt) {
				due = append(due, d)
				f.reinject[d.msg]++
			} else {
				keep = append(keep, d)
			}
		}
		f.deferred = keep
		f.mu.Unlock()
		for _, d := range due {
			if err := d.sender.Tell(context.Background(), d.to, d.msg); err != nil {
				f.unexpect(d.msg)
			}
			f.activity.Add(1)
		}
	}
}

func (f *c42Faults) close() {
	close(f.stop)
	<-f.done
}

// exhausted: no fault can happen any more (budget used up, nothing deferred).
func (f *c42Faults) exhausted() bool {
	f.mu.Lock()
	defer f.mu.Unlock()
	if len(f.deferred) > 0 {
		return false
	}
	if f.place != nil {
		return f.idx >= f.placeMax
	}
	return f.budget == 0
}

func (f *c42Faults) summary() (total int64, byKind map[string]int64, log []c42FaultRec, seen int64) {
	f.mu.Lock()
	defer f.mu.Unlock()
	byKind = map[string]int64{}
	for k := c42FDrop; k <= c42FDupLate; k++ {
		byKind[k.String()] = f.applied[k]
		total += f.applied[k]
	}
	return total, byKind, append([]c42FaultRec(nil), f.log...), f.idx
}

// c42DescribeProto renders a protocol message for fault logs; ok=false when the
// message is not controller-to-controller protocol traffic (never faulted).
func c42DescribeProto(msg any) (string, bool) {
	switch m := msg.(type) {
	case *commands.SequencedMessage:
		return fmt.Sprintf("Seq(%d,%s,ch=%v)", m.Seq(), m.MessageID(), m.Chunked()), true
	case *commands.Request:
		return fmt.Sprintf("Request(conf=%d,upTo=%d,timeout=%v)", m.ConfirmedSeq(), m.RequestUpToSeq(), m.ViaTimeout()), true
	case *commands.Ack:
		return fmt.Sprintf("Ack(conf=%d)", m.ConfirmedSeq()), true
	case *commands.RegisterConsumer:
		return "RegisterConsumer", true
	case *commands.RegistrationAck:
		return fmt.Sprintf("RegistrationAck(next=%d)", m.NextSeq()), true
	}
	return "", false
}

// ---------------------------------------------------------------------------
// responsiveness probe
// ---------------------------------------------------------------------------

// The progress bound is counted in controller ticks, but a tick only says that
// time passed: on an overloaded machine a controller round trip can take longer
// than one tick, and then the consumer's silence rule (re-register with a fresh
// nonce on every quiet tick) keeps invalidating the answer that is still in
// flight. That is slowness, not a protocol fault, so only "clean" ticks count:
// ticks during which a two-hop ping-pong between two plain actors of the same
// system completed well within a quarter of the tick interval.

type c42Ping struct{}
type c42Pong struct{}

type c42Probe struct {
	start    atomic.Int64 // unix nanos of the round in flight, 0 = none
	worst    atomic.Int64 // worst round trip since the last sample
	rounds   atomic.Int64 // rounds completed since the last sample
	lastTick atomic.Int64
	clean    atomic.Int64
	total    atomic.Int64
	a, b     *PID
	stop     chan struct{}
	done     chan struct{}
}

type c42ProbeActor struct {
	p    *c42Probe
	peer func() *PID
}

func (x *c42ProbeActor) PreStart(*Context) error { return nil }
func (x *c42ProbeActor) PostStop(*Context) error { return nil }
func (x *c42ProbeActor) Receive(ctx *ReceiveContext) {
	switch ctx.Message().(type) {
	case *c42Ping:
		if peer := x.peer(); peer != nil {
			ctx.Tell(peer, &c42Pong{})
		}
	case *c42Pong:
		if x.peer() == nil { // B: bounce
			ctx.Tell(ctx.Sender(), &c42Pong{})
			return
		}
		if st := x.p.start.Swap(0); st != 0 {
			rtt := time.Now().UnixNano() - st
			for {
				w := x.p.worst.Load()
				if rtt <= w || x.p.worst.CompareAndSwap(w, rtt) {
					break
				}
			}
			x.p.rounds.Add(1)
		}
	}
}

func c42StartProbe(sys *actorSystem) (*c42Probe, error) {
	p := &c42Probe{stop: make(chan struct{}), done: make(chan struct{})}
	ctx := context.Background()
	b, err := sys.Spawn(ctx, "c42-probe-b", &c42ProbeActor{p: p, peer: func() *PID { return nil }})
	if err != nil {
		return nil, err
	}
	a, err := sys.Spawn(ctx, "c42-probe-a", &c42ProbeActor{p: p, peer: func() *PID { return b }})
	if err != nil {
		return nil, err
	}
	p.a, p.b = a, b
	go func() {
		defer close(p.done)
		for {
			select {
			case <-p.stop:
				return
			default:
			}
			if p.start.CompareAndSwap(0, time.Now().UnixNano()) {
				if err := Tell(ctx, a, &c42Ping{}); err != nil {
					p.start.Store(0)
				}
			}
			time.Sleep(2 * time.Millisecond)
		}
	}()
	return p, nil
}

func (p *c42Probe) close() {
	close(p.stop)
	<-p.done
}

// onTick is called from the intercept hook for every tick of the controller
// chosen as the tick clock; it classifies the interval since the previous tick.
func (p *c42Probe) onTick(interval time.Duration) {
	now := time.Now().UnixNano()
	worst := p.worst.Swap(0)
	rounds := p.rounds.Swap(0)
	if st := p.start.Load(); st != 0 && now-st > worst {
		worst = now - st
	}
	last := p.lastTick.Swap(now)
	p.total.Add(1)
	if rounds > 0 && worst < int64(interval)/4 && last != 0 && now-last >= int64(interval)*3/4 {
		p.clean.Add(1)
	}
}

// ---------------------------------------------------------------------------
// point-to-point scenario
// ---------------------------------------------------------------------------

const c42Tick = 20 * time.Millisecond

type c42Knobs struct {
	N            int    // messages produced
	Window       int    // consumer flow-control window
	PaceUs       int    // producer dwell before answering RequestNext
	AckDwellUs   int    // producer dwell before answering Stored
	DwellUs      int    // consumer dwell before confirming
	SlowPct      int    // % of messages the consumer confirms only on its 2nd/3rd presentation
	Chunk        bool   // chunked payloads (1 KiB chunks)
	BigPct       int    // % of messages needing several chunks
	ConsFirst    bool   // spawn order
	FixedParts   int    // >0: every message has exactly this many chunks
	Only         string // "" = all protocol messages may be faulted; "reg" = only RegistrationAck and Request
	Budget       int
	PerMille     int
	Weights      [4]int
	Place        map[int64]c42FaultKind
	PlaceName    string
	StallTicks   int64
	WatchdogSecs int
}

func (k c42Knobs) String() string {
	return fmt.Sprintf("n=%d w=%d pace=%d ackdwell=%d dwell=%d slow=%d chunk=%v big=%d consfirst=%v parts=%d only=%s budget=%d pm=%d wt=%v place=%s",
		k.N, k.Window, k.PaceUs, k.AckDwellUs, k.DwellUs, k.SlowPct, k.Chunk, k.BigPct, k.ConsFirst, k.FixedParts, k.Only, k.Budget, k.PerMille, k.Weights, k.PlaceName)
}

// c42GenKnobs draws one scenario; emphasis "c43" biases towards small windows,
// chunked payloads, slow producer acknowledgements and Request reordering.
func c42GenKnobs(rng *rand.Rand, emphasis string, thorough bool) c42Knobs {
	k := c42Knobs{StallTicks: 75, WatchdogSecs: 150}
	k.N = 50 + rng.Intn(151)
	windows := []int{1, 2, 8, 50, 3, 4}
	if emphasis == "c43" {
		windows = []int{1, 2, 2, 3, 4, 4, 8, 5}
	}
	k.Window = windows[rng.Intn(len(windows))]
	k.PaceUs = []int{0, 0, 0, 200, 1000}[rng.Intn(5)]
	k.AckDwellUs = []int{0, 0, 0, 500, 5000, 30000}[rng.Intn(6)]
	k.DwellUs = []int{0, 0, 1000, 10000, 200}[rng.Intn(5)]
	k.SlowPct = []int{0, 0, 3, 10}[rng.Intn(4)]
	k.ConsFirst = rng.Intn(2) == 0
	chunkOdds := 3
	if emphasis == "c43" {
		chunkOdds = 6
	}
	if k.Window >= 2 && rng.Intn(10) < chunkOdds {
		k.Chunk = true
		k.BigPct = []int{10, 30, 60, 100}[rng.Intn(4)]
	}
	if k.DwellUs >= 10000 || k.AckDwellUs >= 30000 {
		k.N = 50 + rng.Intn(60)
	}
	if k.AckDwellUs >= 30000 {
		k.N = 30 + rng.Intn(30)
	}
	k.Budget = rng.Intn(26)
	if rng.Intn(12) == 0 {
		k.Budget = 0
	}
	k.PerMille = []int{20, 50, 100, 200, 400}[rng.Intn(5)]
	switch rng.Intn(5) {
	case 0:
		k.Weights = [4]int{1, 0, 0, 0} // loss only
	case 1:
		k.Weights = [4]int{0, 1, 1, 1} // duplication / reordering only
	default:
		k.Weights = [4]int{3, 2, 3, 2}
	}
	if emphasis == "c43" && rng.Intn(2) == 0 {
		k.Weights = [4]int{1, 2, 3, 3}
	}
	if emphasis == "c43" && rng.Intn(8) == 0 {
		// registration-churn family: a chunked message straddles the demand
		// edge while the producer endpoint is slow to acknowledge Stored and
		// the consumer is slow to confirm (quiet ticks => re-registration);
		// only RegistrationAck / Request are lost or delayed
		k.Window = 3 + rng.Intn(3)
		k.Chunk, k.BigPct, k.FixedParts = true, 100, 2
		k.AckDwellUs = 30000 + rng.Intn(40000)
		k.SlowPct = 50
		k.N = 16 + rng.Intn(16)
		k.Only = "reg"
		k.Budget, k.PerMille, k.Weights = 25, 400, [4]int{2, 0, 1, 0}
	}
	return k
}

type c42Item struct {
	id    string
	data  []byte
	need  int // presentations before the consumer confirms
	parts int // expected chunk count (1 = whole)
}

type c42Viol struct {
	Prop   string
	Sig    string
	Detail map[string]any
}

type c42CCSnap struct {
	Expected, Confirmed, UpTo, InFlight int64
	Buf                                 int
	BufSeqs                             []int64
	Session                             bool
}

type c42PCSnap struct {
	Current, Confirmed, Demand int64
	Unconf, Handshake          int
	HasConsumer                bool
}

// c42Case is one running point-to-point scenario and its monitors.
type c42Case struct {
	k      c42Knobs
	seed   int64
	items  []c42Item
	index  map[string]int
	faults *c42Faults

	prodPID, consPID *PID

	mu sync.Mutex
	// producer endpoint ledger
	produced  int // items handed to the controller (Produced sent)
	storedN   int
	pconf     map[string]int // DeliveryConfirmed per id
	pconfN    int            // distinct ids confirmed to the producer
	pconfDups int
	// consumer endpoint ledger
	order       []string       // ids in first-presentation order
	present     map[string]int // presentations per id (endpoint side)
	lastFirst   string
	lastSeq     int64
	represent   int
	confirmSent map[string]bool
	confirmN    int
	// consumer-controller side (hook / tap mailbox)
	enq            map[string]int // Delivery enqueues per id (controller side)
	confProcessed  map[int64]bool // seq whose Confirmed the controller accepted
	reqMax         int64          // highest sequence the consumer controller ever requested
	maxBuf         int
	seqSeen        int64
	seqMaxSeen     int64
	cc             c42CCSnap
	pc             c42PCSnap
	demandLimited  int64
	pcDemandMax    int64 // highest demandUpTo the producer controller ever held (seen at its turn starts)
	demandAbove    int64
	demandAboveWit map[string]any
	lastPCMsg      string
	overWindowTop  int64 // sequenced messages that arrived exactly at the demand edge
	viols          []c42Viol
	vsigs          map[string]bool

	ccTicks, pcTicks atomic.Int64
	progress         atomic.Int64
	probe            *c42Probe
}

func (sc *c42Case) violate(prop, sig string, detail map[string]any) {
	// caller holds sc.mu
	key := prop + "|" + sig
	if sc.vsigs[key] {
		return
	}
	sc.vsigs[key] = true
	sc.viols = append(sc.viols, c42Viol{Prop: prop, Sig: sig, Detail: detail})
}

func c42MakeItems(k c42Knobs, seed int64) []c42Item {
	rng := rand.New(rand.NewSource(seed ^ 0x5bd1e995))
	items := make([]c42Item, k.N)
	for i := range items {
		size := 8 + rng.Intn(120)
		parts := 1
		if k.Chunk && rng.Intn(100) < k.BigPct {
			maxParts := k.Window
			if maxParts > 5 {
				maxParts = 5
			}
			parts = 2 + rng.Intn(maxParts-1)
			if k.FixedParts > 0 {
				parts = k.FixedParts
			}
			size = (parts-1)*1024 + 150 + rng.Intn(500)
		}
		data := make([]byte, size)
		rng.Read(data)
		binary.BigEndian.PutUint64(data, uint64(i)+1)
		need := 1
		if rng.Intn(100) < k.SlowPct {
			need = 2 + rng.Intn(2)
		}
		items[i] = c42Item{id: fmt.Sprintf("m%04d", i+1), data: data, need: need, parts: parts}
	}
	return items
}

// ---- endpoints -------------------------------------------------------------

type c42Producer struct {
	sc           *c42Case
	next         int
	lastToken    string
	lastProduced *Produced
	lastStored   string
}

func (p *c42Producer) PreStart(*Context) error { return nil }
func (p *c42Producer) PostStop(*Context) error { return nil }

func (p *c42Producer) Receive(ctx *ReceiveContext) {
	sc := p.sc
	switch msg := ctx.Message().(type) {
	case *RequestNext:
		if !msg.IsAuthorizedFor(ctx.Self(), ctx.Sender()) {
			return
		}
		if msg.Token() == p.lastToken && p.lastProduced != nil {
			ctx.Tell(ctx.Sender(), p.lastProduced) // retried grant: same answer
			return
		}
		if p.next >= len(sc.items) {
			return
		}
		if sc.k.PaceUs > 0 {
			time.Sleep(time.Duration(sc.k.PaceUs) * time.Microsecond)
		}
		it := sc.items[p.next]
		produced, err := NewProduced(msg, it.id, &wrapperspb.BytesValue{Value: it.data})
		if err != nil {
			ctx.Err(err)
			return
		}
		p.next++
		p.lastToken = msg.Token()
		p.lastProduced = produced
		sc.mu.Lock()
		sc.produced = p.next
		sc.mu.Unlock()
		sc.progress.Add(1)
		ctx.Tell(ctx.Sender(), produced)
	case *Stored:
		if !msg.IsAuthorizedFor(ctx.Self(), ctx.Sender()) {
			return
		}
		if sc.k.AckDwellUs > 0 && msg.MessageID() != p.lastStored {
			// only the first Stored of a message dwells: retransmissions are
			// answered at once so the endpoint never builds a backlog
			time.Sleep(time.Duration(sc.k.AckDwellUs) * time.Microsecond)
		}
		p.lastStored = msg.MessageID()
		ack, err := NewStoredAck(msg)
		if err != nil {
			ctx.Err(err)
			return
		}
		sc.mu.Lock()
		sc.storedN++
		sc.mu.Unlock()
		ctx.Tell(ctx.Sender(), ack)
	case *DeliveryConfirmed:
		if !msg.IsAuthorizedFor(ctx.Self(), ctx.Sender()) {
			return
		}
		sc.onProducerConfirmed(msg.MessageID(), msg.Seq())
	}
}

func (sc *c42Case) onProducerConfirmed(id string, seq int64) {
	sc.mu.Lock()
	defer sc.mu.Unlock()
	if _, known := sc.index[id]; !known {
		sc.violate("C42", "confirmed-unknown-message", map[string]any{"id": id, "seq": seq})
		return
	}
	if !sc.confirmSent[id] {
		sc.violate("C42", "confirmed-before-consumer-confirmation", map[string]any{"id": id, "seq": seq, "delivered_so_far": len(sc.order), "consumer_confirmed_so_far": sc.confirmN})
	}
	sc.pconf[id]++
	if sc.pconf[id] == 1 {
		sc.pconfN++
		sc.progress.Add(1)
	} else {
		sc.pconfDups++
	}
}

type c42Consumer struct {
	sc *c42Case
}

func (c *c42Consumer) PreStart(*Context) error { return nil }
func (c *c42Consumer) PostStop(*Context) error { return nil }

func (c *c42Consumer) Receive(ctx *ReceiveContext) {
	sc := c.sc
	msg, ok := ctx.Message().(*Delivery)
	if !ok || !msg.IsAuthorizedFor(ctx.Self(), ctx.Sender()) {
		return
	}
	confirm, first := sc.onDelivery(msg)
	if sc.k.DwellUs > 0 && first {
		time.Sleep(time.Duration(sc.k.DwellUs) * time.Microsecond)
	}
	if !confirm {
		return
	}
	confirmed, err := NewConfirmed(msg)
	if err != nil {
		ctx.Err(err)
		return
	}
	sc.mu.Lock()
	if !sc.confirmSent[msg.MessageID()] {
		sc.confirmSent[msg.MessageID()] = true
		sc.confirmN++
		sc.progress.Add(1)
	}
	sc.mu.Unlock()
	ctx.Tell(ctx.Sender(), confirmed)
}

// onDelivery is the consumer-endpoint oracle: first presentations follow the
// production order without holes and carry the produced payload; a
// re-presentation is of the most recently presented message only.
func (sc *c42Case) onDelivery(d *Delivery) (confirm, first bool) {
	id := d.MessageID()
	sc.mu.Lock()
	defer sc.mu.Unlock()
	idx, known := sc.index[id]
	if !known {
		sc.violate("C42", "delivered-unknown-message", map[string]any{"id": id, "seq": d.Seq()})
		return true, false
	}
	sc.present[id]++
	n := sc.present[id]
	if n == 1 {
		want := len(sc.order)
		switch {
		case idx > want:
			sc.violate("C42", "delivery-gap", map[string]any{"got": id, "want": sc.items[want].id, "position": want, "seq": d.Seq()})
		case idx < want:
			sc.violate("C42", "delivery-reordered", map[string]any{"got": id, "position": want, "seq": d.Seq()})
		}
		if d.Seq() <= sc.lastSeq {
			sc.violate("C42", "delivery-seq-not-increasing", map[string]any{"id": id, "seq": d.Seq(), "previous_seq": sc.lastSeq})
		}
		sc.order = append(sc.order, id)
		sc.lastFirst = id
		sc.lastSeq = d.Seq()
		sc.progress.Add(1)
		payload, ok := d.Payload().(*wrapperspb.BytesValue)
		if !ok || !bytes.Equal(payload.GetValue(), sc.items[idx].data) {
			got := -1
			if ok {
				got = len(payload.GetValue())
			}
			sc.violate("C42", "delivery-payload-mismatch", map[string]any{"id": id, "seq": d.Seq(), "want_len": len(sc.items[idx].data), "got_len": got, "parts": sc.items[idx].parts})
		}
	} else {
		sc.represent++
		if id != sc.lastFirst {
			sc.violate("C42", "re-presented-not-in-flight", map[string]any{"id": id, "seq": d.Seq(), "in_flight": sc.lastFirst, "presentation": n})
		}
	}
	return n >= sc.items[idx].need, n == 1
}

// c42Tap wraps the consumer endpoint's mailbox: Enqueue runs on the sending
// goroutine, i.e. on the consumer controller's turn, so the moment a Delivery is
// (re-)presented is observed exactly, together with what the controller had
// already accepted as confirmed.
type c42Tap struct {
	Mailbox
	sc *c42Case
}

func (m *c42Tap) Enqueue(rc *ReceiveContext) error {
	if d, ok := rc.Message().(*Delivery); ok {
		m.sc.onDeliveryEnqueue(d)
	}
	return m.Mailbox.Enqueue(rc)
}

func (sc *c42Case) onDeliveryEnqueue(d *Delivery) {
	sc.mu.Lock()
	defer sc.mu.Unlock()
	sc.enq[d.MessageID()]++
	if sc.enq[d.MessageID()] > 1 && sc.confProcessed[d.Seq()] {
		sc.violate("C42", "re-presented-after-confirmation", map[string]any{"id": d.MessageID(), "seq": d.Seq(), "presentation": sc.enq[d.MessageID()]})
	}
}

// ---- intercept (controller side) ---------------------------------------------

func (sc *c42Case) c42Intercept(controller any, ctx *ReceiveContext) bool {
	msg := ctx.Message()
	switch c := controller.(type) {
	case *consumerController:
		return sc.onConsumerController(c, ctx, msg)
	case *producerController:
		return sc.onProducerController(c, ctx, msg)
	}
	return false
}

func (sc *c42Case) onConsumerController(c *consumerController, ctx *ReceiveContext, msg any) bool {
	snap := c42CCSnap{Expected: c.expectedSeq, Confirmed: c.confirmedSeq, UpTo: c.requestUpToSeq, Buf: len(c.buffer), Session: c.sessionID != ""}
	if c.inFlight != nil {
		snap.InFlight = c.inFlight.Seq()
	}
	for i, e := range c.buffer {
		if i >= 12 {
			break
		}
		snap.BufSeqs = append(snap.BufSeqs, e.Seq())
	}
	sc.mu.Lock()
	sc.cc = snap
	if snap.UpTo > sc.reqMax {
		sc.reqMax = snap.UpTo
	}
	if snap.Buf > sc.maxBuf {
		sc.maxBuf = snap.Buf
	}
	if snap.Buf > c.window {
		sc.violate("C43", "consumer-buffer-exceeds-window", map[string]any{"buffer_len": snap.Buf, "window": c.window, "expected_seq": snap.Expected, "request_up_to": snap.UpTo, "buffer_head": snap.BufSeqs})
	}
	reqMax := sc.reqMax
	sc.mu.Unlock()

	switch m := msg.(type) {
	case *consumerControllerTick:
		sc.ccTicks.Add(1)
		if sc.probe != nil {
			sc.probe.onTick(c42Tick)
		}
		return false
	case *Confirmed:
		// mirror of handleConfirmed's acceptance test: from here on the
		// controller no longer holds this delivery in flight
		if ctx.Sender().Equals(c.consumer) && c.inFlight != nil && m.SessionID() == c.sessionID &&
			m.MessageID() == c.inFlight.MessageID() && m.Seq() == c.inFlight.Seq() {
			sc.mu.Lock()
			sc.confProcessed[m.Seq()] = true
			sc.mu.Unlock()
		}
		return false
	}
	desc, proto := c42DescribeProto(msg)
	if !proto {
		return false
	}
	swallow, original := sc.faults.judge(ctx.Self(), ctx.Sender(), msg, "cc", desc, sc.mayFault(msg))
	if sm, ok := msg.(*commands.SequencedMessage); ok && original {
		// judged before the fault decision takes effect: the producer
		// controller did send it
		sc.mu.Lock()
		sc.seqSeen++
		if sm.Seq() > sc.seqMaxSeen {
			sc.seqMaxSeen = sm.Seq()
		}
		if c.sessionID != "" && sm.SessionID() == c.sessionID {
			if sm.Seq() > reqMax {
				kind := "whole"
				if sm.Chunked() {
					kind = "chunked"
				}
				// root-cause split: did the producer's own demand variable exceed
				// what the consumer requested, or did it send beyond its own demand?
				if sm.Seq() <= sc.pcDemandMax {
					kind += ":producer-demand-above-requested"
				} else {
					kind += ":beyond-producer-demand"
				}
				sc.violate("C43", "sequenced-message-beyond-requested:"+kind, map[string]any{"producer_highest_demand_seen": sc.pcDemandMax, "seq": sm.Seq(), "highest_requested": reqMax, "message": sm.MessageID(), "chunked": sm.Chunked(), "consumer_confirmed": snap.Confirmed, "window": c.window,
					"producer_demand_above_requested_first_seen": sc.demandAboveWit, "producer_demand_above_requested_count": sc.demandAbove})
			}
			if sm.Seq() == reqMax {
				sc.overWindowTop++
			}
		}
		sc.mu.Unlock()
	}
	return swallow
}

func (sc *c42Case) onProducerController(c *producerController, ctx *ReceiveContext, msg any) bool {
	snap := c42PCSnap{Current: c.currentSeq, Confirmed: c.confirmedSeq, Demand: c.demandUpTo, Unconf: len(c.unconfirmed), Handshake: c.handshake, HasConsumer: c.consumerController != nil}
	sc.mu.Lock()
	sc.pc = snap
	if snap.HasConsumer && snap.Handshake == producerHandshakeIdle && snap.Current >= snap.Demand && snap.Demand > 0 {
		sc.demandLimited++
	}
	if snap.Demand > sc.pcDemandMax {
		sc.pcDemandMax = snap.Demand
	}
	if snap.Demand > sc.reqMax && sc.reqMax > 0 {
		// not a violation by itself (nothing was sent yet): the state from
		// which a send beyond the requested sequence becomes possible
		sc.demandAbove++
		if sc.demandAboveWit == nil {
			sc.demandAboveWit = map[string]any{"producer_demand_up_to": snap.Demand, "highest_requested": sc.reqMax, "producer_current_seq": snap.Current, "previous_message_at_producer": sc.lastPCMsg, "handshake_phase": snap.Handshake}
		}
	}
	sc.lastPCMsg = fmt.Sprintf("%T", msg)
	sc.mu.Unlock()
	if _, ok := msg.(*producerControllerTick); ok {
		sc.pcTicks.Add(1)
		return false
	}
	desc, proto := c42DescribeProto(msg)
	if !proto {
		return false
	}
	if rq, ok := msg.(*commands.Request); ok {
		sc.mu.Lock()
		if rq.RequestUpToSeq() > sc.reqMax && rq.SessionID() == c.sessionID {
			sc.reqMax = rq.RequestUpToSeq()
		}
		sc.mu.Unlock()
	}
	swallow, _ := sc.faults.judge(ctx.Self(), ctx.Sender(), msg, "pc", desc, sc.mayFault(msg))
	return swallow
}

func (sc *c42Case) mayFault(msg any) bool {
	if sc.k.Only == "reg" {
		switch msg.(type) {
		case *commands.RegistrationAck, *commands.Request:
			return true
		}
		return false
	}
	return true
}

// ---- one case ----------------------------------------------------------------

type c42Obs struct {
	Knobs         string
	Seed          int64
	Viols         []c42Viol
	Inconclusive  string
	Stalled       bool
	Faults        int64
	FaultsByKind  map[string]int64
	FaultLog      []c42FaultRec
	ProtoMsgs     int64
	Produced      int
	Delivered     int
	Represent     int
	Confirmed     int
	ConfirmDups   int
	MaxBuf        int
	ReqMax        int64
	SeqSeen       int64
	DemandLimited int64
	DemandAbove   int64
	AtDemandEdge  int64
	CCTicks       int64
	CleanTicks    int64
	PCTicks       int64
	Wall          time.Duration
}

func (sc *c42Case) state() map[string]any {
	// caller holds sc.mu
	return map[string]any{
		"produced": sc.produced, "stored": sc.storedN, "delivered": len(sc.order), "consumer_confirm_sent": sc.confirmN,
		"producer_confirmed": sc.pconfN, "consumer_controller": sc.cc, "producer_controller": sc.pc,
		"cc_ticks": sc.ccTicks.Load(), "pc_ticks": sc.pcTicks.Load(), "clean_ticks": sc.probe.clean.Load(),
	}
}

// c42RunCase runs one scenario to completion (all messages confirmed to the
// producer), to a stall (bounded progress violated) or to the wall-clock watchdog.
func c42RunCase(t *testing.T, k c42Knobs, seed int64) *c42Obs {
	start := time.Now()
	obs := &c42Obs{Knobs: k.String(), Seed: seed}
	sc := &c42Case{
		k: k, seed: seed, items: c42MakeItems(k, seed), index: map[string]int{},
		pconf: map[string]int{}, present: map[string]int{}, confirmSent: map[string]bool{},
		enq: map[string]int{}, confProcessed: map[int64]bool{}, vsigs: map[string]bool{},
	}
	for i, it := range sc.items {
		sc.index[it.id] = i
	}
	sc.faults = c42NewFaults(seed, k.Budget, k.PerMille, k.Weights, k.Place)
	defer sc.faults.close()

	sys := vfNewSystem(t)
	defer vfStop(sys)
	events, err := sys.Subscribe()
	if err != nil {
		obs.Inconclusive = fmt.Sprintf("harness set-up: subscribe: %v", err)
		return obs
	}
	probe, err := c42StartProbe(sys)
	if err != nil {
		obs.Inconclusive = fmt.Sprintf("harness set-up: probe: %v", err)
		return obs
	}
	defer probe.close()
	sc.probe = probe
	c42Scenarios.Store(ActorSystem(sys), c42Interceptor(sc))
	defer c42Scenarios.Delete(ActorSystem(sys))

	ctx := context.Background()
	prodName, consName := "c42-producer", "c42-consumer"
	var setupErr error
	spawnCons := func() {
		pid, err := sys.Spawn(ctx, consName, &c42Consumer{sc: sc},
			AsReliableConsumer(prodName, WithReliableFlowControlWindow(k.Window), WithReliableResendInterval(c42Tick)),
			WithMailbox(&c42Tap{Mailbox: NewUnboundedMailbox(), sc: sc}))
		if err != nil && setupErr == nil {
			setupErr = fmt.Errorf("spawn consumer: %w", err)
		}
		sc.consPID = pid
	}
	spawnProd := func() {
		opts := []ReliableProducerOption{WithReliableRetryInterval(c42Tick), WithReliableDeliveryConfirmation()}
		if k.Chunk {
			opts = append(opts, WithReliableChunking(MinReliableChunkSize))
		}
		pid, err := sys.Spawn(ctx, prodName, &c42Producer{sc: sc}, AsReliableProducer(consName, opts...))
		if err != nil && setupErr == nil {
			setupErr = fmt.Errorf("spawn producer: %w", err)
		}
		sc.prodPID = pid
	}
	if k.ConsFirst {
		spawnCons()
		spawnProd()
	} else {
		spawnProd()
		spawnCons()
	}
	if setupErr != nil {
		obs.Inconclusive = "harness set-up: " + setupErr.Error()
		return obs
	}

	// bounded progress: no window of K clean consumer-controller ticks (see
	// c42Probe; also K producer-controller ticks and at least K/2 tick intervals
	// of wall time) in which no fault was applied or released and still nothing
	// progressed. The fault budget is finite, so such a window exists in every
	// run that neither completes nor is starved by the machine.
	var (
		baseProg = sc.progress.Load()
		baseAct  = sc.faults.activity.Load()
		baseCC   = probe.clean.Load()
		basePC   = sc.pcTicks.Load()
		baseAt   = time.Now()
		failed   *ReliableDeliveryFailed
		deadline = start.Add(time.Duration(k.WatchdogSecs) * time.Second)
	)
	done := func() bool {
		sc.mu.Lock()
		defer sc.mu.Unlock()
		return sc.pconfN == len(sc.items) && len(sc.order) == len(sc.items)
	}
	for !done() {
		for m := range events.Iterator() {
			if f, ok := m.Payload().(*ReliableDeliveryFailed); ok && failed == nil {
				failed = f
			}
		}
		if failed != nil {
			sc.mu.Lock()
			total, _, flog, _ := sc.faults.summary()
			sc.violate("C42", "controller-terminated:"+failed.ControllerRole().String()+":"+failed.Stage().String(),
				map[string]any{"error": failed.Err().Error(), "endpoint": failed.EndpointName(), "state": sc.state(), "faults": total, "fault_log": flog})
			sc.mu.Unlock()
			obs.Stalled = true
			break
		}
		p, a := sc.progress.Load(), sc.faults.activity.Load()
		// the harness endpoints still having queued work is not a stall
		busy := sc.prodPID.mailbox.Len() > 0 || sc.consPID.mailbox.Len() > 0
		if p != baseProg || a != baseAct || busy {
			baseProg, baseAct, baseCC, basePC, baseAt = p, a, probe.clean.Load(), sc.pcTicks.Load(), time.Now()
		} else if probe.clean.Load()-baseCC >= k.StallTicks && sc.pcTicks.Load()-basePC >= k.StallTicks &&
			time.Since(baseAt) >= time.Duration(k.StallTicks)*c42Tick/2 {
			sc.mu.Lock()
			what := "unconfirmed-at-producer"
			switch {
			case sc.produced < len(sc.items) && len(sc.order) == sc.produced && sc.pconfN == sc.produced:
				what = "producer-not-granted-credit"
			case len(sc.order) < sc.produced:
				what = "produced-not-delivered"
			case sc.confirmN < len(sc.order):
				what = "consumer-never-confirmed" // harness side; should not happen
			}
			total, _, flog, _ := sc.faults.summary()
			sc.violate("C42", "no-progress-after-faults:"+what, map[string]any{"ticks_without_progress": k.StallTicks, "state": sc.state(), "faults": total, "fault_log": flog,
				"producer_controller_running": c42CompanionRunning(sys, prodName, ReliableControllerRoleProducer), "consumer_controller_running": c42CompanionRunning(sys, consName, ReliableControllerRoleConsumer)})
			sc.mu.Unlock()
			obs.Stalled = true
			break
		}
		if time.Now().After(deadline) {
			sc.mu.Lock()
			obs.Inconclusive = fmt.Sprintf("wall-clock watchdog (%ds) fired without a structural stall: %v", k.WatchdogSecs, sc.state())
			sc.mu.Unlock()
			break
		}
		time.Sleep(2 * time.Millisecond)
	}

	if !obs.Stalled && obs.Inconclusive == "" {
		// settle: three more consumer-controller ticks so that a stray
		// re-presentation after the final confirmation would be seen
		from := sc.ccTicks.Load()
		verifrt.WaitUntil(5*time.Second, func() bool { return sc.ccTicks.Load() >= from+3 })
	}
	_ = sys.Unsubscribe(events)

	sc.mu.Lock()
	obs.Viols = append(obs.Viols, sc.viols...)
	obs.Produced, obs.Delivered, obs.Represent = sc.produced, len(sc.order), sc.represent
	obs.Confirmed, obs.ConfirmDups = sc.pconfN, sc.pconfDups
	obs.MaxBuf, obs.ReqMax, obs.SeqSeen = sc.maxBuf, sc.reqMax, sc.seqSeen
	obs.DemandLimited, obs.AtDemandEdge, obs.DemandAbove = sc.demandLimited, sc.overWindowTop, sc.demandAbove
	sc.mu.Unlock()
	obs.Faults, obs.FaultsByKind, obs.FaultLog, obs.ProtoMsgs = sc.faults.summary()
	obs.CCTicks, obs.PCTicks, obs.CleanTicks = sc.ccTicks.Load(), sc.pcTicks.Load(), probe.clean.Load()
	for i := range obs.Viols {
		d := obs.Viols[i].Detail
		d["knobs"] = obs.Knobs
		d["seed"] = seed
		if _, ok := d["fault_log"]; !ok {
			d["fault_log"] = obs.FaultLog
		}
	}
	sort.Slice(obs.Viols, func(i, j int) bool { return obs.Viols[i].Sig < obs.Viols[j].Sig })
	obs.Wall = time.Since(start)
	return obs
}

func c42CompanionRunning(sys *actorSystem, endpoint string, role ReliableControllerRole) bool {
	pid, err := sys.resolveLocalReliableCompanion(endpoint, role)
	return err == nil && pid != nil && pid.IsRunning()
}

// c42RunParallel runs the cases with bounded in-process parallelism and hands
// each observation to report on the calling goroutine.
func c42RunParallel(par int, n int, run func(i int) *c42Obs, report func(i int, o *c42Obs)) {
	type res struct {
		i int
		o *c42Obs
	}
	out := make(chan res, n)
	sem := make(chan struct{}, par)
	go func() {
		for i := 0; i < n; i++ {
			sem <- struct{}{}
			go func(i int) {
				sent := false
				defer func() {
					if !sent { // set-up failure ended the goroutine (t.Fatalf / Goexit)
						out <- res{i, &c42Obs{Inconclusive: "harness set-up failed (see test log)"}}
					}
					<-sem
				}()
				o := run(i)
				sent = true
				out <- res{i, o}
			}(i)
		}
	}()
	for j := 0; j < n; j++ {
		r := <-out
		report(r.i, r.o)
	}
}
