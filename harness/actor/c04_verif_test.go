//go:build verif

package actor

import (
	"fmt"
	"math/rand"
	"sort"
	"strings"
	"sync"
	"sync/atomic"
	"testing"
	"time"

	"github.com/anishathalye/porcupine"

	"github.com/tochemey/goakt/v4/internal/address"
	"github.com/tochemey/goakt/v4/internal/verifrt"
)

// C04: every mailbox is linearizable to its sequential specification.
// Histories of Enqueue/Dequeue/IsEmpty are recorded at the mailbox's own API
// boundary while 2-4 producer threads and one consumer thread are interleaved by
// the deterministic serial scheduler at every atomic/lock operation of the
// mailbox sources, then checked with porcupine against a per-kind model.

type c04Msg struct {
	ID     int
	Sender int
	Prio   int
	Box    int // mailbox instance the message was enqueued to
}

const (
	c04Enq = iota
	c04Deq
	c04Empty
)

type c04In struct {
	Op     int
	ID     int
	Sender int
	Prio   int
}

type c04Out struct {
	OK    bool // enqueue accepted
	ID    int  // dequeued id (0 = nil)
	Empty bool // IsEmpty result / Dequeue returned nil
}

type c04Item struct {
	ID, Sender, Prio int
}

// c04Spec describes the sequential model of one kind.
type c04Spec struct {
	Kind     string
	Capacity int    // effective capacity (0 = unbounded)
	Order    string // fifo | prio | stableprio | fair
	PrioFn   string
}

func c04Higher(fn string, a, b c04Item) bool {
	switch fn {
	case "value":
		return a.Prio > b.Prio
	case "twolevel":
		return a.Prio%2 > b.Prio%2
	}
	return false // constant: nobody outranks anybody
}

func c04PrioFunc(fn string) PriorityFunc {
	return func(x, y any) bool {
		a, ok1 := x.(*c04Msg)
		b, ok2 := y.(*c04Msg)
		if !ok1 || !ok2 {
			return false
		}
		return c04Higher(fn, c04Item{Prio: a.Prio}, c04Item{Prio: b.Prio})
	}
}

func c04Model(spec c04Spec) porcupine.Model {
	return porcupine.Model{
		Init: func() interface{} { return []c04Item(nil) },
		Step: func(state, input, output interface{}) (bool, interface{}) {
			st := state.([]c04Item)
			in := input.(c04In)
			out := output.(c04Out)
			switch in.Op {
			case c04Enq:
				full := spec.Capacity > 0 && len(st) >= spec.Capacity
				if !out.OK {
					return full, st
				}
				if full {
					return false, st
				}
				ns := make([]c04Item, len(st)+1)
				copy(ns, st)
				ns[len(st)] = c04Item{in.ID, in.Sender, in.Prio}
				return true, ns
			case c04Empty:
				return out.Empty == (len(st) == 0), st
			case c04Deq:
				if out.Empty {
					return len(st) == 0, st
				}
				idx := -1
				for i, it := range st {
					if it.ID == out.ID {
						idx = i
						break
					}
				}
				if idx < 0 {
					return false, st
				}
				got := st[idx]
				switch spec.Order {
				case "fifo":
					if idx != 0 {
						return false, st
					}
				case "fair":
					// FIFO per sender: no earlier element of the same sender
					for i := 0; i < idx; i++ {
						if st[i].Sender == got.Sender {
							return false, st
						}
					}
				case "prio":
					for _, it := range st {
						if c04Higher(spec.PrioFn, it, got) {
							return false, st
						}
					}
				case "stableprio":
					for i, it := range st {
						if c04Higher(spec.PrioFn, it, got) {
							return false, st
						}
						if i < idx && !c04Higher(spec.PrioFn, got, it) {
							// an earlier element that got does not outrank must go first
							return false, st
						}
					}
				}
				ns := make([]c04Item, 0, len(st)-1)
				ns = append(ns, st[:idx]...)
				ns = append(ns, st[idx+1:]...)
				return true, ns
			}
			return false, st
		},
		Equal: func(a, b interface{}) bool {
			x, y := a.([]c04Item), b.([]c04Item)
			if len(x) != len(y) {
				return false
			}
			for i := range x {
				if x[i] != y[i] {
					return false
				}
			}
			return true
		},
		DescribeOperation: func(input, output interface{}) string {
			in := input.(c04In)
			out := output.(c04Out)
			switch in.Op {
			case c04Enq:
				return fmt.Sprintf("Enq(id=%d,s=%d,p=%d)->%v", in.ID, in.Sender, in.Prio, out.OK)
			case c04Deq:
				if out.Empty {
					return "Deq->nil"
				}
				return fmt.Sprintf("Deq->%d", out.ID)
			}
			return fmt.Sprintf("IsEmpty->%v", out.Empty)
		},
	}
}

func c04SpecFor(kind string, capacity int, prioFn string) c04Spec {
	s := c04Spec{Kind: kind, Order: "fifo", PrioFn: prioFn}
	switch kind {
	case "fair":
		s.Order = "fair"
	case "priority":
		s.Order = "prio"
	case "stablepriority":
		s.Order = "stableprio"
	case "boundedpriority":
		s.Order = "prio"
		s.Capacity = capacity
	case "boundedstablepriority":
		s.Order = "stableprio"
		s.Capacity = capacity
	case "nonblocking":
		s.Capacity = int(nextPowerOfTwo(capacity))
	case "bounded":
		s.Capacity = 0 // only driven below capacity (Enqueue blocks when full)
	}
	return s
}

var c04Senders = func() []*PID {
	var out []*PID
	for i := 0; i < 8; i++ {
		out = append(out, newRemotePID(address.New(fmt.Sprintf("c04sender%d", i), "c04sys", "localhost", 1000+i), nil))
	}
	return out
}()

type c04Scenario struct {
	Kind      string
	Capacity  int
	PrioFn    string
	Producers int
	PerProd   int
	ConsOps   []int // c04Deq / c04Empty
	Policy    verifrt.SerialPolicy
	Seed      int64
	Shared    bool // all producers send under one sender identity (matters for the fair mailbox)
	Prefill   int  // messages put through the mailbox sequentially beforehand (segmented: the history then crosses the 256-slot segment boundary)
}

func (s c04Scenario) String() string {
	return fmt.Sprintf("kind=%s cap=%d prio=%s producers=%d per=%d cons=%v policy=%d seed=%d shared=%v prefill=%d", s.Kind, s.Capacity, s.PrioFn, s.Producers, s.PerProd, s.ConsOps, s.Policy, s.Seed, s.Shared, s.Prefill)
}

// c04Run executes one scenario under the serial scheduler and returns the history.
func c04Run(s c04Scenario, box int) (ops []porcupine.Operation, trace []byte, misdelivered []string, aborted bool) {
	mb := vfNewMailbox(s.Kind, s.Capacity, c04PrioFunc(s.PrioFn))
	var clock int64
	var mu sync.Mutex // protects ops; threads are serialized anyway
	record := func(client int, in c04In, call int64, out c04Out, ret int64) {
		mu.Lock()
		ops = append(ops, porcupine.Operation{ClientId: client, Input: in, Call: call, Output: out, Return: ret})
		mu.Unlock()
	}
	tick := func() int64 { return atomic.AddInt64(&clock, 1) }
	readMsg := func(rc *ReceiveContext) c04Out {
		if rc == nil {
			return c04Out{Empty: true}
		}
		m, ok := rc.Message().(*c04Msg)
		if !ok || m == nil {
			misdelivered = append(misdelivered, fmt.Sprintf("dequeued context carries %T", rc.Message()))
			return c04Out{ID: -1}
		}
		if m.Box != box {
			misdelivered = append(misdelivered, fmt.Sprintf("message id=%d of mailbox %d dequeued from mailbox %d", m.ID, m.Box, box))
		}
		return c04Out{ID: m.ID}
	}
	// sequential prefill: the mailbox is empty again afterwards (same abstract
	// state as a fresh one), but its internal position is just before a boundary
	for i := 0; i < s.Prefill; i++ {
		_ = mb.Enqueue(&ReceiveContext{message: &c04Msg{ID: -1 - i, Box: box}, sender: c04Senders[0]})
		if mb.Dequeue() == nil {
			misdelivered = append(misdelivered, fmt.Sprintf("prefill message %d not dequeued", i))
		}
	}
	var fns []func()
	id := 0
	for p := 0; p < s.Producers; p++ {
		var mine []*c04Msg
		for k := 0; k < s.PerProd; k++ {
			id++
			snd := p
			if s.Shared {
				snd = 0
			}
			mine = append(mine, &c04Msg{ID: id, Sender: snd, Prio: (id*7 + p) % 4, Box: box})
		}
		p := p
		fns = append(fns, func() {
			for _, m := range mine {
				rc := &ReceiveContext{message: m, sender: c04Senders[m.Sender]}
				in := c04In{Op: c04Enq, ID: m.ID, Sender: m.Sender, Prio: m.Prio}
				call := tick()
				err := mb.Enqueue(rc)
				ret := tick()
				record(p, in, call, c04Out{OK: err == nil}, ret)
			}
		})
	}
	fns = append(fns, func() {
		for _, op := range s.ConsOps {
			call := tick()
			var out c04Out
			if op == c04Deq {
				out = readMsg(mb.Dequeue())
			} else {
				out = c04Out{Empty: mb.IsEmpty()}
			}
			ret := tick()
			record(s.Producers, c04In{Op: op}, call, out, ret)
		}
	})
	res := verifrt.RunSerial(s.Seed, s.Policy, 3, 4000, fns...)
	// sequential final drain: everything accepted must come out exactly once
	for i := 0; i < id+2; i++ {
		call := tick()
		out := readMsg(mb.Dequeue())
		ret := tick()
		record(s.Producers, c04In{Op: c04Deq}, call, out, ret)
		if out.Empty {
			call = tick()
			e := mb.IsEmpty()
			ret = tick()
			record(s.Producers, c04In{Op: c04Empty}, call, c04Out{Empty: e}, ret)
			break
		}
	}
	return ops, res.Trace, misdelivered, res.Aborted
}

// c04Relax removes, according to the mask, observer operations that overlap a
// still-pending Enqueue on the same mailbox: bit 0 = empty reports (IsEmpty->true,
// Dequeue->nil), bit 1 = rejected enqueues overlapping another pending enqueue,
// bit 2 = IsEmpty->false. These are the shapes of the one known finding (an
// enqueue's counter update and its publication are separate steps, so an
// overlapping observer can see it half applied).
func c04Relax(ops []porcupine.Operation, mask int) (out []porcupine.Operation, dropped int) {
	overlapsPendingEnq := func(i int) bool {
		o := ops[i]
		for j, e := range ops {
			if i == j || e.Call >= o.Return || e.Return <= o.Call {
				continue
			}
			ein := e.Input.(c04In)
			// a pending Enqueue, or (for a producer's rejected enqueue) a pending
			// successful Dequeue whose counter decrement is not yet visible
			if ein.Op == c04Enq || (ein.Op == c04Deq && !e.Output.(c04Out).Empty && o.Input.(c04In).Op == c04Enq) {
				return true
			}
		}
		return false
	}
	for i, o := range ops {
		in := o.Input.(c04In)
		res := o.Output.(c04Out)
		drop := false
		switch {
		case in.Op != c04Enq && res.Empty:
			drop = mask&1 != 0
		case in.Op == c04Enq && !res.OK:
			drop = mask&2 != 0
		case in.Op == c04Empty && !res.Empty:
			drop = mask&4 != 0
		}
		if drop && overlapsPendingEnq(i) {
			dropped++
			continue
		}
		out = append(out, o)
	}
	return out, dropped
}

var c04RelaxNames = map[int]string{1: "empty-report", 2: "reject", 4: "nonempty-report"}

func c04Describe(ops []porcupine.Operation, spec c04Spec) []string {
	m := c04Model(spec)
	sorted := append([]porcupine.Operation(nil), ops...)
	sort.Slice(sorted, func(i, j int) bool { return sorted[i].Call < sorted[j].Call })
	var out []string
	for _, o := range sorted {
		out = append(out, fmt.Sprintf("c%d [%d,%d] %s", o.ClientId, o.Call, o.Return, m.DescribeOperation(o.Input, o.Output)))
	}
	return out
}

func c04GenScenario(rng *rand.Rand, kind string) c04Scenario {
	s := c04Scenario{Kind: kind, Producers: 2 + rng.Intn(3), PerProd: 1 + rng.Intn(3), Seed: rng.Int63()}
	// keep histories short: the linearizability search is exponential in the
	// number of mutually overlapping operations (at most 7 enqueues in flight)
	for s.Producers*s.PerProd > 7 {
		s.PerProd--
	}
	s.PrioFn = []string{"value", "const", "twolevel"}[rng.Intn(3)]
	total := s.Producers * s.PerProd
	switch kind {
	case "nonblocking", "boundedpriority", "boundedstablepriority":
		s.Capacity = []int{1, 2, 3, 4, 8}[rng.Intn(5)]
	default:
		s.Capacity = total + 8
	}
	n := 2 + rng.Intn(6)
	for i := 0; i < n; i++ {
		if rng.Intn(3) == 0 {
			s.ConsOps = append(s.ConsOps, c04Empty)
		} else {
			s.ConsOps = append(s.ConsOps, c04Deq)
		}
	}
	s.Policy = []verifrt.SerialPolicy{verifrt.SerialRandom, verifrt.SerialPCT, verifrt.SerialSticky}[rng.Intn(3)]
	s.Shared = kind == "fair" && rng.Intn(2) == 0
	if kind == "segmented" && rng.Intn(3) > 0 {
		s.Prefill = segmentSize - rng.Intn(7) // 250..256: the concurrent part crosses into a new segment
	}
	return s
}

func TestVerif_C04(t *testing.T) {
	r := verifrt.Start(t, "C04")
	defer r.Finish()
	r.Rule("case = one serialized execution (random / PCT depth 3 / sticky schedule at every atomic, lock and loop head of the mailbox sources) of 2-4 producers x 1-3 enqueues + one consumer issuing 2-7 Dequeue/IsEmpty + a sequential final drain, on one of the 9 mailbox kinds with capacities {1,2,3,4,8} and 3 priority functions; oracle = porcupine linearizability against the per-kind sequential model + identity ledger (every accepted id dequeued exactly once, from the mailbox it was put in); non-trivial = the consumer's operations overlapped at least one producer operation in the recorded history; distinct by (scenario, schedule trace)")
	r.Assume("sync.Mutex/RWMutex, sync.Pool and the third-party ring buffer of BoundedMailbox are atomic with respect to the serial scheduler (no yield points inside them)")
	rng := r.Rand(4)
	perKind := r.N(9*350, 9*20000) / len(vfMailboxKinds)
	if perKind < 1 {
		perKind = 1
	}
	box := 0
	for _, kind := range vfMailboxKinds {
		for c := 0; c < perKind; c++ {
			box++
			s := c04GenScenario(rng, kind)
			ops, trace, mis, aborted := c04Run(s, box)
			if aborted {
				r.Count("serial_step_budget_exhausted", 1)
			}
			spec := c04SpecFor(s.Kind, s.Capacity, s.PrioFn)
			overlap := false
			for _, o := range ops {
				if o.ClientId == s.Producers {
					for _, e := range ops {
						if e.ClientId != s.Producers && e.Call < o.Return && e.Return > o.Call {
							overlap = true
						}
					}
				}
			}
			r.Case(s.String()+string(trace), overlap)
			r.Count("operations_recorded", int64(len(ops)))
			r.Count("schedule_switch_points", int64(len(trace)))
			for _, m := range mis {
				r.Violation("misdelivery:"+kind, map[string]any{"scenario": s.String(), "what": m, "history": c04Describe(ops, spec)})
			}
			// identity ledger: accepted ids dequeued exactly once
			acc := map[int]bool{}
			deq := map[int]int{}
			for _, o := range ops {
				in := o.Input.(c04In)
				out := o.Output.(c04Out)
				if in.Op == c04Enq && out.OK {
					acc[in.ID] = true
				}
				if in.Op == c04Deq && !out.Empty {
					deq[out.ID]++
				}
			}
			for id := range acc {
				if deq[id] != 1 {
					r.Violation(fmt.Sprintf("ledger-accepted-dequeued-%dx:%s", deq[id], kind), map[string]any{"scenario": s.String(), "id": id, "history": c04Describe(ops, spec)})
				}
			}
			for id, n := range deq {
				if !acc[id] {
					r.Violation("ledger-dequeued-never-accepted:"+kind, map[string]any{"scenario": s.String(), "id": id, "times": n, "history": c04Describe(ops, spec)})
				}
			}
			res := porcupine.CheckOperationsTimeout(c04Model(spec), ops, 20*time.Second)
			switch res {
			case porcupine.Ok:
			case porcupine.Unknown:
				r.Inconclusive("porcupine timeout on %s", s.String())
			case porcupine.Illegal:
				explained := false
				for _, mask := range []int{1, 2, 4, 3, 5, 6, 7} {
					relaxed, dropped := c04Relax(ops, mask)
					if dropped == 0 {
						continue
					}
					if porcupine.CheckOperationsTimeout(c04Model(spec), relaxed, 20*time.Second) == porcupine.Ok {
						var parts []string
						for _, b := range []int{1, 2, 4} {
							if mask&b != 0 {
								parts = append(parts, c04RelaxNames[b])
							}
						}
						r.Violation("nonlinearizable:pending-enqueue-overlap["+strings.Join(parts, "+")+"]:"+kind, map[string]any{"scenario": s.String(), "history": c04Describe(ops, spec), "dropped_observer_ops": dropped})
						explained = true
						break
					}
				}
				if explained {
					break
				}
				r.Violation("nonlinearizable:"+kind, map[string]any{"scenario": s.String(), "history": c04Describe(ops, spec)})
			}
			if c < 1 && kind == "unbounded" {
				r.Sample(map[string]any{"scenario": s.String(), "history": c04Describe(ops, spec), "schedule": fmt.Sprint(trace)})
			}
		}
	}
	if !strings.Contains(strings.Join(verifrt.SiteNames, " "), "unbounded_mailbox.go") {
		r.Inconclusive("no yield sites in the mailbox sources: the serial scheduler cannot interleave anything")
	}
}
