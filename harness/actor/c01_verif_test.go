//go:build verif

package actor

import (
	"testing"

	"github.com/tochemey/goakt/v4/internal/verifrt"
)

var c01AllDisturbs = []string{"none", "none", "restart", "panic-resume", "panic-restart", "batchtell", "actorsenders", "stash"}

// TestVerif_C01: in-handler overlap word + turn-ownership word (H1 hook) + race
// detector on plain actor state, over knob tuples x disturbances x noise policies.
func TestVerif_C01(t *testing.T) {
	r := verifrt.Start(t, "C01")
	defer r.Finish()
	r.Rule("case = (mailbox kind, senders, messages/sender, handler dwell, throughput budget, GOMAXPROCS, disturbance in {none,restart,panic-resume,panic-restart,batchtell,actor senders,stash}, k hot noise sites) on a fresh actor system; oracle = CAS in-handler word per actor + CAS in-turn word per schedulable at the runTurn hook + race detector on plain fields touched only in Receive; non-trivial = >1 sender and >1 turn observed (contention on the schedule/finish window); distinct by knob tuple and seed")
	rng := r.Rand(1)
	// end-of-turn boundary rounds with the overlap monitors (two workers can only
	// meet in the reset / reclaim window at the end of a turn)
	c02RunBoundaryFor(t, r, r.Rand(11), r.N(48, 1500), true)
	n := r.N(64, 1500)
	for i := 0; i < n; i++ {
		k := c01GenKnobs(rng, vfMailboxKinds, c01AllDisturbs)
		seed := rng.Int63()
		obs := c01RunCase(t, k, seed)
		r.Case(k.String()+"/"+verifrt.Hash64s(seed), obs.Contended)
		r.Count("turns_observed", obs.Turns)
		r.Count("messages_handled", int64(obs.Handled))
		r.Count("noise_yields", obs.Yields)
		r.Count("noise_delays_injected", obs.Delays)
		r.Count("external_restarts", obs.Restarts)
		if obs.Overlaps > 0 {
			r.Violation("handler-overlap:"+k.Disturb+":"+k.Mailbox, map[string]any{"knobs": k.String(), "seed": seed, "count": obs.Overlaps, "witness": obs.OverlapWit, "hot_sites": obs.HotSites})
		}
		if obs.TurnOverlaps > 0 {
			r.Violation("turn-overlap:"+k.Disturb+":"+k.Mailbox, map[string]any{"knobs": k.String(), "seed": seed, "count": obs.TurnOverlaps, "witness": obs.TurnWit, "hot_sites": obs.HotSites})
		}
		if i < 3 {
			r.Sample(map[string]any{"knobs": k.String(), "turns": obs.Turns, "handled": obs.Handled, "accepted": obs.Accepted, "hot_sites": obs.HotSites, "delays": obs.Delays})
		}
	}
}

// TestVerif_C02: conservation ledger accepted = handled, each at most once, and the
// stuck-state predicate at quiescence.
func TestVerif_C02(t *testing.T) {
	r := verifrt.Start(t, "C02")
	defer r.Finish()
	r.Rule("case = same knob tuples as C01; oracle = per-message handled counter (must be 1 for every accepted message when the actor was never restarted; at most 1 always) and the stuck-state predicate (accepted but unhandled messages with the actor running and no progress); non-trivial = >1 sender, >1 turn and >=40 messages; distinct by knob tuple and seed")
	rng := r.Rand(2)
	// end-of-turn boundary rounds (backlog sized around the throughput budget,
	// racing Tells, structural lost-wake-up predicate): see c02_boundary_verif_test.go
	c02RunBoundary(t, r, r.Rand(22), r.N(48, 1500))
	n := r.N(64, 1500)
	for i := 0; i < n; i++ {
		k := c01GenKnobs(rng, vfMailboxKinds, c01AllDisturbs)
		seed := rng.Int63()
		obs := c01RunCase(t, k, seed)
		r.Case(k.String()+"/"+verifrt.Hash64s(seed), obs.Contended && obs.Accepted >= 40)
		r.Count("accepted", int64(obs.Accepted))
		r.Count("handled", int64(obs.Handled))
		r.Count("noise_delays_injected", obs.Delays)
		if len(obs.Dups) > 0 {
			r.Violation("duplicate-handling:"+k.Disturb+":"+k.Mailbox, map[string]any{"knobs": k.String(), "seed": seed, "dups": obs.Dups, "hot_sites": obs.HotSites})
		}
		if obs.Stuck != "" {
			r.Violation("accepted-not-handled:"+k.Disturb+":"+k.Mailbox, map[string]any{"knobs": k.String(), "seed": seed, "stuck": obs.Stuck, "lost": obs.Lost, "hot_sites": obs.HotSites})
		}
		if i < 3 {
			r.Sample(map[string]any{"knobs": k.String(), "accepted": obs.Accepted, "handled": obs.Handled, "hot_sites": obs.HotSites})
		}
	}
}

// TestVerif_C03: per-sender sequence monotonicity at the receiver for the FIFO kinds.
func TestVerif_C03(t *testing.T) {
	r := verifrt.Start(t, "C03")
	defer r.Finish()
	r.Rule("case = FIFO mailbox kinds only (unbounded, segmented, fair, bounded, non-blocking bounded with capacity >= traffic), goroutine senders / actor senders / BatchTell mixed with Tell, counts crossing the 256-slot segment size; oracle = strictly increasing sequence per sender at the receiver; non-trivial = >1 sender and >= 40 messages per sender; distinct by knob tuple and seed")
	rng := r.Rand(3)
	// stash clause: relative arrival order of stashed messages under mixes of
	// Unstash and UnstashAll (see c03_stash_verif_test.go)
	c03RunStashOrder(t, r, r.Rand(33), r.N(240, 20000))
	n := r.N(48, 1000)
	for i := 0; i < n; i++ {
		k := c01GenKnobs(rng, vfFIFOKinds, []string{"none", "batchtell", "actorsenders", "none"})
		seed := rng.Int63()
		obs := c01RunCase(t, k, seed)
		r.Case(k.String()+"/"+verifrt.Hash64s(seed), k.Senders > 1 && k.PerSender >= 40)
		r.Count("handled", int64(obs.Handled))
		if obs.OrderBad > 0 {
			r.Violation("sender-order:"+k.Disturb+":"+k.Mailbox, map[string]any{"knobs": k.String(), "seed": seed, "count": obs.OrderBad, "witness": obs.OrderWit, "hot_sites": obs.HotSites})
		}
		if i < 3 {
			r.Sample(map[string]any{"knobs": k.String(), "handled": obs.Handled, "hot_sites": obs.HotSites})
		}
	}
}
