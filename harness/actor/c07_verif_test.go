//go:build verif

package actor

import (
	"context"
	"errors"
	"fmt"
	"math/rand"
	"os"
	"reflect"
	"sort"
	"strings"
	"sync"
	"sync/atomic"
	"testing"
	"time"

	gerrors "github.com/tochemey/goakt/v4/errors"
	"github.com/tochemey/goakt/v4/internal/verifrt"
	"github.com/tochemey/goakt/v4/log"
	"github.com/tochemey/goakt/v4/supervisor"
)

// C07 — failures are handled by exactly the configured supervision directive.
//
// One case = one generated supervisor configuration (shared by 1-3 sibling
// children, a second one for an optional grandchild) x one script of 1-6 faults
// injected one at a time into a small family
//
//	G (top level) -> P -> C0..Ck (-> GC under C0)
//
// After every fault the harness brings the supervision machinery to rest
// (fences, see c07Fence) and compares what the event stream, the PIDs and the
// harness actors' own counters show with a reference supervisor model.

// ---- error types and fault kinds ------------------------------------------

type c07ErrA struct{}
type c07ErrB struct{}
type c07ErrC struct{}
type c07ErrFence struct{}

func (*c07ErrA) Error() string     { return "c07 error A" }
func (*c07ErrB) Error() string     { return "c07 error B" }
func (*c07ErrC) Error() string     { return "c07 error C" }
func (*c07ErrFence) Error() string { return "c07 fence" }

const (
	c07KErrA = iota
	c07KErrB
	c07KErrC
	c07KPanicErr
	c07KPanicStr
	c07KPanicPE
	c07NKinds
)

var c07KindNames = []string{"ctx.Err(A)", "ctx.Err(B)", "ctx.Err(C)", "panic(errA)", "panic(string)", "panic(PanicError)"}

// c07KindType is the error type the runtime sees for a fault kind: ctx.Err keeps
// the concrete type, every panic surfaces as PanicError.
func c07KindType(k int) string {
	switch k {
	case c07KErrA:
		return "A"
	case c07KErrB:
		return "B"
	case c07KErrC:
		return "C"
	}
	return "P"
}

func c07ErrValue(key string) error {
	switch key {
	case "A":
		return &c07ErrA{}
	case "B":
		return &c07ErrB{}
	case "C":
		return &c07ErrC{}
	case "P":
		return &gerrors.PanicError{}
	}
	return new(gerrors.AnyError)
}

// c07TypeString is the key SetDirectiveByType expects (reflect type string of the
// non-pointer error type).
func c07TypeString(key string) string {
	rt := reflect.TypeOf(c07ErrValue(key))
	if rt.Kind() == reflect.Pointer {
		rt = rt.Elem()
	}
	return rt.String()
}

const c07DirNone = -1

func c07DirName(d int) string {
	if d == c07DirNone {
		return "none"
	}
	return supervisor.Directive(d).String()
}

// ---- messages ---------------------------------------------------------------

type c07Fault struct {
	ID   int
	Kind int
}
type c07Probe struct{}
type c07ProbeReply struct {
	Ctr int64
	Gen int64
}
type c07Bump struct{}
type c07FenceMsg struct{}

// ---- ledger shared by the harness actors of one case -------------------------

type c07SignalRec struct {
	Receiver string
	FaultID  int
	Depth    int  // 1 = PanicSignal carrying the fault message, 2 = carrying such a PanicSignal, ...
	SameMsg  bool // innermost message is the very *c07Fault that was sent
}

type c07Ledger struct {
	mu        sync.Mutex
	prestarts map[string]int // successful PreStart calls
	attempts  map[string]int
	poststops map[string]int
	failNext  map[string]bool
	raised    map[int]string // fault id -> actor that raised it
	signals   []c07SignalRec
	reraise   map[string]int // actor -> fault kind + 1 to raise when the next PanicSignal arrives
	reraised  map[string]int // actor -> number of re-raises done
	sent      map[int]*c07Fault
}

func c07NewLedger() *c07Ledger {
	return &c07Ledger{prestarts: map[string]int{}, attempts: map[string]int{}, poststops: map[string]int{}, failNext: map[string]bool{}, raised: map[int]string{}, reraise: map[string]int{}, reraised: map[string]int{}, sent: map[int]*c07Fault{}}
}

type c07Actor struct {
	name string
	led  *c07Ledger
	ctr  atomic.Int64 // in-actor state: survives Resume, zeroed by PreStart
	gen  atomic.Int64
}

func (a *c07Actor) PreStart(*Context) error {
	a.led.mu.Lock()
	defer a.led.mu.Unlock()
	a.led.attempts[a.name]++
	if a.led.failNext[a.name] {
		delete(a.led.failNext, a.name)
		return errors.New("c07 PreStart fails once")
	}
	a.led.prestarts[a.name]++
	a.gen.Store(int64(a.led.prestarts[a.name]))
	a.ctr.Store(0)
	return nil
}

func (a *c07Actor) PostStop(*Context) error {
	a.led.mu.Lock()
	a.led.poststops[a.name]++
	a.led.mu.Unlock()
	return nil
}

func c07Raise(ctx *ReceiveContext, kind int) {
	switch kind {
	case c07KErrA:
		ctx.Err(&c07ErrA{})
	case c07KErrB:
		ctx.Err(&c07ErrB{})
	case c07KErrC:
		ctx.Err(&c07ErrC{})
	case c07KPanicErr:
		panic(&c07ErrA{})
	case c07KPanicStr:
		panic("c07 boom")
	case c07KPanicPE:
		panic(gerrors.NewPanicError(errors.New("c07 panic error")))
	}
}

func (a *c07Actor) Receive(ctx *ReceiveContext) {
	switch m := ctx.Message().(type) {
	case *c07Fault:
		a.led.mu.Lock()
		a.led.raised[m.ID] = a.name
		a.led.mu.Unlock()
		c07Raise(ctx, m.Kind)
	case *c07Probe:
		ctx.Response(&c07ProbeReply{Ctr: a.ctr.Load(), Gen: a.gen.Load()})
	case *c07Bump:
		a.ctr.Add(1)
	case *PanicSignal:
		depth := 1
		var inner any = m.Message()
		for {
			ps, ok := inner.(*PanicSignal)
			if !ok {
				break
			}
			depth++
			inner = ps.Message()
		}
		rec := c07SignalRec{Receiver: a.name, FaultID: -1, Depth: depth}
		a.led.mu.Lock()
		if f, ok := inner.(*c07Fault); ok {
			rec.FaultID = f.ID
			rec.SameMsg = a.led.sent[f.ID] == f
		}
		a.led.signals = append(a.led.signals, rec)
		kind := a.led.reraise[a.name]
		if kind > 0 {
			delete(a.led.reraise, a.name)
			a.led.reraised[a.name]++
		}
		a.led.mu.Unlock()
		if kind > 0 {
			c07Raise(ctx, kind-1)
		}
	}
}

// c07LogRing keeps the last warning/error lines the runtime logged, so that a
// violation the harness cannot explain from its own observations (the actor
// system going down) carries the runtime's own account.
type c07LogRing struct {
	mu    sync.Mutex
	lines []string
}

func (l *c07LogRing) Write(p []byte) (int, error) {
	l.mu.Lock()
	for _, ln := range strings.Split(strings.TrimRight(string(p), "\n"), "\n") {
		if (strings.Contains(ln, "failing: err=") || strings.Contains(ln, "restart budget exhausted")) && !strings.Contains(ln, "GoAkt") {
			continue // one per injected fault: noise here
		}
		if len(ln) > 400 {
			ln = ln[:400]
		}
		l.lines = append(l.lines, ln)
	}
	if len(l.lines) > 80 {
		l.lines = append([]string(nil), l.lines[len(l.lines)-80:]...)
	}
	l.mu.Unlock()
	return len(p), nil
}

func (l *c07LogRing) tail() []string {
	l.mu.Lock()
	defer l.mu.Unlock()
	return append([]string(nil), l.lines...)
}

type c07FenceActor struct{}

func (*c07FenceActor) PreStart(*Context) error { return nil }
func (*c07FenceActor) PostStop(*Context) error { return nil }
func (*c07FenceActor) Receive(ctx *ReceiveContext) {
	if _, ok := ctx.Message().(*c07FenceMsg); ok {
		ctx.Err(&c07ErrFence{})
	}
}

// c07Fence: the system has one FIFO supervision consumer. A failure of the
// fence actor (no directive for its error type => it gets suspended) that is
// submitted after another actor's failure is therefore processed after it: once
// the fence actor shows up suspended, notifyParent has run for every failure
// submitted before. This is a quiescence device only, never an oracle.
func c07Fence(fence *PID) error {
	if err := Tell(context.Background(), fence, &c07FenceMsg{}); err != nil {
		return fmt.Errorf("fence tell: %w", err)
	}
	if !verifrt.WaitUntil(40*time.Second, fence.IsSuspended) {
		return errors.New("fence actor not suspended within 40s")
	}
	fence.doReinstate()
	return nil
}

// ---- supervisor configuration and its reference semantics ---------------------

type c07Cfg struct {
	Default    bool // spawned without WithSupervisor
	Strategy   supervisor.Strategy
	Typed      map[string]int // WithDirective
	Any        int            // WithAnyErrorDirective, c07DirNone = not given
	Extra      map[string]int // SetDirectiveByType after construction; key "any" allowed
	HasRetry   bool
	MaxRetries uint32
	Timeout    time.Duration
	Backoff    bool
	Initial    time.Duration
	MaxDelay   time.Duration
	ResetAfter time.Duration
}

func c07SortedKeys(m map[string]int) []string {
	ks := make([]string, 0, len(m))
	for k := range m {
		ks = append(ks, k)
	}
	sort.Strings(ks)
	return ks
}

func (c *c07Cfg) String() string {
	if c.Default {
		return "default-supervisor"
	}
	var sb strings.Builder
	sb.WriteString(c.Strategy.String())
	for _, k := range c07SortedKeys(c.Typed) {
		fmt.Fprintf(&sb, " %s->%s", k, c07DirName(c.Typed[k]))
	}
	if c.Any != c07DirNone {
		fmt.Fprintf(&sb, " any->%s", c07DirName(c.Any))
	}
	for _, k := range c07SortedKeys(c.Extra) {
		fmt.Fprintf(&sb, " +%s->%s", k, c07DirName(c.Extra[k]))
	}
	if c.HasRetry {
		fmt.Fprintf(&sb, " retry(%d,%s)", c.MaxRetries, c.Timeout)
	}
	if c.Backoff {
		fmt.Fprintf(&sb, " backoff(%s,%s,%s)", c.Initial, c.MaxDelay, c.ResetAfter)
	}
	return sb.String()
}

func (c *c07Cfg) build() *supervisor.Supervisor {
	if c.Default {
		return nil
	}
	opts := []supervisor.SupervisorOption{supervisor.WithStrategy(c.Strategy)}
	for _, k := range c07SortedKeys(c.Typed) {
		opts = append(opts, supervisor.WithDirective(c07ErrValue(k), supervisor.Directive(c.Typed[k])))
	}
	if c.Any != c07DirNone {
		opts = append(opts, supervisor.WithAnyErrorDirective(supervisor.Directive(c.Any)))
	}
	if c.HasRetry {
		opts = append(opts, supervisor.WithRetry(c.MaxRetries, c.Timeout))
	}
	if c.Backoff {
		opts = append(opts, supervisor.WithExponentialBackoff(c.Initial, c.MaxDelay, c.ResetAfter))
	}
	s := supervisor.NewSupervisor(opts...)
	for _, k := range c07SortedKeys(c.Extra) {
		s.SetDirectiveByType(c07TypeString(k), supervisor.Directive(c.Extra[k]))
	}
	return s
}

// lookup is the reference: the rule configured for the error type, else the
// any-error rule, else none (suspension). The effective rule set follows the
// documented construction: defaults PanicError->Stop (+PanicNilError->Restart,
// unreachable here), WithDirective entries on top; WithAnyErrorDirective makes
// the any-error rule the sole rule; SetDirectiveByType adds without clearing.
func (c *c07Cfg) lookup(typeKey string) int {
	eff := map[string]int{}
	switch {
	case c.Default:
		eff["P"] = int(supervisor.StopDirective)
	case c.Any != c07DirNone:
		eff["any"] = c.Any
	default:
		eff["P"] = int(supervisor.StopDirective)
		for k, d := range c.Typed {
			eff[k] = d
		}
	}
	for k, d := range c.Extra {
		eff[k] = d
	}
	if d, ok := eff[typeKey]; ok {
		return d
	}
	if d, ok := eff["any"]; ok {
		return d
	}
	return c07DirNone
}

func (c *c07Cfg) strategy() supervisor.Strategy {
	if c.Default {
		return supervisor.OneForOneStrategy
	}
	return c.Strategy
}

// window: backoff's resetAfter when backoff is configured (defaulting to maxDelay),
// otherwise the WithRetry timeout; <= 0 means no window (budget disabled).
func (c *c07Cfg) window() time.Duration {
	if c.Default {
		return -1
	}
	if c.Backoff {
		if c.ResetAfter > 0 {
			return c.ResetAfter
		}
		if c.MaxDelay < c.Initial {
			return c.Initial
		}
		return c.MaxDelay
	}
	if c.HasRetry {
		return c.Timeout
	}
	return -1
}

func (c *c07Cfg) maxRetries() int {
	if c.Default || !c.HasRetry {
		return 0
	}
	return int(c.MaxRetries)
}

func c07GenCfg(rng *rand.Rand, forGrandchild bool) *c07Cfg {
	c := &c07Cfg{Any: c07DirNone, Typed: map[string]int{}, Extra: map[string]int{}}
	if rng.Intn(12) == 0 {
		c.Default = true
		return c
	}
	if rng.Intn(2) == 0 {
		c.Strategy = supervisor.OneForAllStrategy
	}
	// directive bias: Stop is terminal for the target (and for the family under
	// one-for-all), keep it rarer so that scripts stay long
	pick := func() int {
		x := rng.Intn(10)
		switch {
		case x < 1:
			return int(supervisor.StopDirective)
		case x < 4:
			return int(supervisor.ResumeDirective)
		case x < 8:
			return int(supervisor.RestartDirective)
		}
		return int(supervisor.EscalateDirective)
	}
	if forGrandchild && rng.Intn(2) == 0 {
		c.Any = int(supervisor.EscalateDirective)
	}
	for _, k := range []string{"A", "B", "C", "P"} {
		if rng.Intn(100) < 55 {
			c.Typed[k] = pick()
		}
	}
	if c.Any == c07DirNone && rng.Intn(100) < 35 {
		c.Any = pick()
	}
	// both kinds of rule in force at once is only reachable through SetDirectiveByType
	if rng.Intn(100) < 35 {
		if c.Any != c07DirNone {
			for _, k := range []string{"A", "B", "C", "P"} {
				if rng.Intn(2) == 0 {
					c.Extra[k] = pick()
				}
			}
		} else {
			c.Extra["any"] = pick()
		}
	}
	if rng.Intn(100) < 65 {
		c.HasRetry = true
		c.MaxRetries = uint32(rng.Intn(4))
		c.Timeout = []time.Duration{0, 200 * time.Millisecond, 5 * time.Second, 5 * time.Second}[rng.Intn(4)]
	}
	if rng.Intn(100) < 30 {
		c.Backoff = true
		c.Initial = time.Duration(1+rng.Intn(8)) * time.Millisecond
		c.MaxDelay = c.Initial * time.Duration(1+rng.Intn(8))
		c.ResetAfter = []time.Duration{0, 200 * time.Millisecond, 5 * time.Second, 5 * time.Second}[rng.Intn(4)]
	}
	return c
}

// ---- model of the family ------------------------------------------------------

const (
	c07Running = iota
	c07Suspended
	c07Stopped
)

var c07StateNames = []string{"running", "suspended", "stopped"}

type c07Node struct {
	name     string
	label    string // G, P, C0.., GC
	parent   *c07Node
	children []*c07Node
	pid      *PID
	cfg      *c07Cfg
	state    int
	known    bool // false: the statement leaves this actor's fate open after some earlier step
	cntLo    int  // consecutive restart-directive faults, as an interval
	cntHi    int
	hasLast  bool
	lastLo   time.Time
	lastHi   time.Time
}

func (n *c07Node) isAncestorOf(o *c07Node) bool {
	for p := o.parent; p != nil; p = p.parent {
		if p == n {
			return true
		}
	}
	return false
}

func (n *c07Node) descendants() []*c07Node {
	var out []*c07Node
	for _, c := range n.children {
		out = append(out, c)
		out = append(out, c.descendants()...)
	}
	return out
}

// bump mirrors the documented fault counter: a previous fault older than a
// positive window restarts the count at 1. Times are intervals on the harness
// clock that contain the moment the runtime took its timestamp.
func (n *c07Node) bump(window time.Duration, tLo, tHi time.Time) {
	switch {
	case n.hasLast && window > 0 && tLo.Sub(n.lastHi) > window:
		n.cntLo, n.cntHi = 1, 1
	case n.hasLast && window > 0 && tHi.Sub(n.lastLo) > window:
		n.cntLo, n.cntHi = 1, n.cntHi+1
	default:
		n.cntLo, n.cntHi = n.cntLo+1, n.cntHi+1
	}
	n.hasLast, n.lastLo, n.lastHi = true, tLo, tHi
}

type c07Exp struct {
	judged       bool
	state        int
	restarted    bool
	stoppedNow   bool
	suspendedNow bool
	untouched    bool
	answers      bool // must answer a probe with its counter intact (Resume)
	role         string
	keepIfSame   bool // not judged, but stays "known" when nothing about it changed in this step
}

type c07SigExp struct {
	FaultID  int
	Depth    int
	Allowed  map[string]bool
	AllowedS string
}

type c07StepExp struct {
	per       map[*c07Node]*c07Exp
	directive string
	strategy  string
	signals   []c07SigExp
	ambiguous bool
}

// c07Expect computes what the statement demands for one failure of target with
// the given error type. It updates the fault counters of the model.
func c07Expect(all []*c07Node, target *c07Node, typeKey string, faultID, depth int, tLo, tHi time.Time) *c07StepExp {
	cfg := target.cfg
	d := cfg.lookup(typeKey)
	oneForAll := cfg.strategy() == supervisor.OneForAllStrategy
	e := &c07StepExp{per: map[*c07Node]*c07Exp{}, directive: c07DirName(d), strategy: cfg.strategy().String()}
	var siblings []*c07Node
	for _, s := range target.parent.children {
		if s != target {
			siblings = append(siblings, s)
		}
	}
	for _, n := range all {
		x := &c07Exp{judged: n.known, untouched: true, state: n.state}
		e.per[n] = x
	}
	defer func() {
		for n, x := range e.per {
			x.role = c07Role(target, n)
		}
	}()
	open := func(n *c07Node) { e.per[n] = &c07Exp{judged: false} }
	// the statement does not say what happens to s; if nothing at all is seen
	// to happen to it (and its descendants), it keeps its place in the model
	openSoft := func(n *c07Node) {
		e.per[n] = &c07Exp{judged: false, keepIfSame: n.known}
		for _, dn := range n.descendants() {
			e.per[dn] = &c07Exp{judged: false, keepIfSame: dn.known}
		}
	}
	openDesc := func(n *c07Node) {
		for _, dn := range n.descendants() {
			open(dn)
		}
	}
	// under one-for-all the statement only spells out Stop for siblings; for the
	// other outcomes the siblings' fate is decided below or left open
	switch d {
	case c07DirNone:
		e.per[target] = &c07Exp{judged: true, state: c07Suspended, suspendedNow: true}
		if oneForAll {
			for _, s := range siblings {
				openSoft(s)
			}
		}
	case int(supervisor.StopDirective):
		e.per[target] = &c07Exp{judged: true, state: c07Stopped, stoppedNow: true}
		openDesc(target)
		if oneForAll {
			for _, s := range siblings {
				if s.known && s.state == c07Stopped {
					continue
				}
				if !s.known {
					// something may still be in flight for it from an earlier step
					open(s)
					openDesc(s)
					continue
				}
				e.per[s] = &c07Exp{judged: true, state: c07Stopped, stoppedNow: true}
				openDesc(s)
			}
		}
	case int(supervisor.ResumeDirective):
		e.per[target] = &c07Exp{judged: true, state: c07Running, untouched: true, answers: true}
		if oneForAll {
			for _, s := range siblings {
				openSoft(s)
			}
		}
	case int(supervisor.EscalateDirective):
		e.per[target] = &c07Exp{judged: true, state: c07Suspended, suspendedNow: true}
		allowed := map[string]bool{}
		var names []string
		for p := target.parent; p != nil; p = p.parent {
			allowed[p.name] = true
			names = append(names, p.label)
		}
		e.signals = append(e.signals, c07SigExp{FaultID: faultID, Depth: depth, Allowed: allowed, AllowedS: strings.Join(names, "|")})
		if oneForAll {
			for _, s := range siblings {
				openSoft(s)
			}
		}
	case int(supervisor.RestartDirective):
		window := cfg.window()
		group := []*c07Node{target}
		if oneForAll {
			for _, s := range siblings {
				if !(s.known && s.state == c07Stopped) {
					group = append(group, s)
				}
			}
		}
		for _, g := range group {
			g.bump(window, tLo, tHi)
		}
		max := cfg.maxRetries()
		exhausted, certain := false, true
		if max > 0 && window > 0 {
			switch {
			case target.cntLo > max:
				exhausted = true
			case target.cntHi <= max:
			default:
				certain = false
			}
		}
		if !certain {
			e.ambiguous = true
			return e
		}
		if exhausted {
			e.directive = "Restart/budget-exhausted"
			e.per[target] = &c07Exp{judged: true, state: c07Suspended, suspendedNow: true}
			for _, s := range group[1:] {
				switch {
				case !s.known:
					open(s)
				case s.state == c07Running:
					e.per[s] = &c07Exp{judged: true, state: c07Suspended, suspendedNow: true}
				}
				// an already suspended sibling simply stays as it is
			}
		} else {
			e.per[target] = &c07Exp{judged: true, state: c07Running, restarted: true}
			openDesc(target)
			for _, s := range group[1:] {
				if s.known && s.state == c07Running {
					e.per[s] = &c07Exp{judged: true, state: c07Running, restarted: true}
				} else {
					open(s) // a suspended sibling: the statement does not say
				}
				openDesc(s)
			}
		}
	}
	return e
}

// ---- observation ---------------------------------------------------------------

type c07Snap struct {
	state     int
	prestarts int
	attempts  int
	poststops int
	restarts  int
	ctr       int64
	gen       int64
	probed    bool
	probeErr  string
}

type c07Events map[string]map[string]int // actor name -> event kind -> count

func (ev c07Events) add(name, kind, path string) {
	if ev[name] == nil {
		ev[name] = map[string]int{}
	}
	ev[name][kind]++
	if ev["#paths"] == nil {
		ev["#paths"] = map[string]int{}
	}
	ev["#paths"][kind+" "+path]++
}

func (ev c07Events) get(name, kind string) int { return ev[name][kind] }

func c07PidState(pid *PID) int {
	switch {
	case pid.IsRunning():
		return c07Running
	case pid.IsSuspended():
		return c07Suspended
	}
	return c07Stopped
}

type c07Case struct {
	Prefix   string
	ChildCfg *c07Cfg
	GCCfg    *c07Cfg
	NChild   int
	HasGC    bool
	Intents  []c07Intent
	Budget   bool // budget-focused case (c07GenBudgetCase)
}

type c07Intent struct {
	Target    int // preferred index into [C0..Ck, GC]
	Kind      int
	Outside   bool // sleep beyond the window before this fault
	FailOnce  bool // the next PreStart of the target fails once
	Chain     int  // >0: when the target is GC, its parent re-raises kind Chain-1 on receiving the PanicSignal
	Reinstate bool // afterwards the parent reinstates a suspended target
	Bump      bool
}

// c07GenBudgetCase: every fault is answered by Restart, a small budget (1-2) in a
// long window, 2-3 siblings that fail in strict alternation, back to back. Under
// one-for-all the faults of different siblings add up (each group restart bumps
// every member's counter), under one-for-one each child has its own budget.
func c07GenBudgetCase(rng *rand.Rand, caseNo int) *c07Case {
	c := &c07Case{Prefix: fmt.Sprintf("c07n%d", caseNo), NChild: 2 + rng.Intn(2), Budget: true}
	cfg := &c07Cfg{Any: c07DirNone, Typed: map[string]int{}, Extra: map[string]int{}}
	if rng.Intn(3) > 0 {
		cfg.Strategy = supervisor.OneForAllStrategy
	}
	if rng.Intn(2) == 0 {
		cfg.Any = int(supervisor.RestartDirective)
	} else {
		for _, k := range []string{"A", "B", "C", "P"} {
			cfg.Typed[k] = int(supervisor.RestartDirective)
		}
	}
	cfg.HasRetry = true
	cfg.MaxRetries = uint32(1 + rng.Intn(2))
	cfg.Timeout = []time.Duration{5 * time.Second, time.Minute}[rng.Intn(2)]
	if rng.Intn(4) == 0 {
		cfg.Backoff = true
		cfg.Initial = time.Duration(1+rng.Intn(4)) * time.Millisecond
		cfg.MaxDelay = cfg.Initial * 4
		cfg.ResetAfter = []time.Duration{5 * time.Second, time.Minute}[rng.Intn(2)]
	}
	c.ChildCfg = cfg
	n := int(cfg.MaxRetries) + 1 + rng.Intn(3)
	first := rng.Intn(c.NChild)
	for i := 0; i < n; i++ {
		c.Intents = append(c.Intents, c07Intent{Target: (first + i) % c.NChild, Kind: rng.Intn(c07NKinds), Bump: rng.Intn(2) == 0, Reinstate: rng.Intn(2) == 0})
	}
	return c
}

func c07GenCase(rng *rand.Rand, caseNo int) *c07Case {
	if rng.Intn(6) == 0 {
		return c07GenBudgetCase(rng, caseNo)
	}
	c := &c07Case{Prefix: fmt.Sprintf("c07n%d", caseNo), NChild: 1 + rng.Intn(3), HasGC: rng.Intn(3) == 0}
	c.ChildCfg = c07GenCfg(rng, false)
	if c.HasGC {
		c.GCCfg = c07GenCfg(rng, true)
	}
	n := 1 + rng.Intn(6)
	alt := rng.Intn(3) == 0 // alternating faulty siblings
	sameKind := -1
	if rng.Intn(3) == 0 {
		sameKind = rng.Intn(c07NKinds) // hammer one error type: drives budgets
	}
	for i := 0; i < n; i++ {
		it := c07Intent{Target: rng.Intn(c.NChild), Kind: rng.Intn(c07NKinds), Bump: rng.Intn(2) == 0, Reinstate: rng.Intn(10) < 7}
		if alt {
			it.Target = i % c.NChild
		}
		if sameKind >= 0 && rng.Intn(4) > 0 {
			it.Kind = sameKind
		}
		if c.HasGC && rng.Intn(3) == 0 {
			it.Target = c.NChild
			if rng.Intn(2) == 0 {
				it.Chain = 1 + rng.Intn(c07NKinds)
			}
		}
		it.Outside = rng.Intn(6) == 0
		it.FailOnce = rng.Intn(8) == 0
		c.Intents = append(c.Intents, it)
	}
	return c
}

func (c *c07Case) Key() string {
	var sb strings.Builder
	fmt.Fprintf(&sb, "children=%d gc=%v cfg=[%s]", c.NChild, c.HasGC, c.ChildCfg)
	if c.HasGC {
		fmt.Fprintf(&sb, " gccfg=[%s]", c.GCCfg)
	}
	for _, it := range c.Intents {
		fmt.Fprintf(&sb, " | t%d %s out=%v fail1=%v chain=%d re=%v", it.Target, c07KindNames[it.Kind], it.Outside, it.FailOnce, it.Chain, it.Reinstate)
	}
	return sb.String()
}

type c07SoftViolation struct {
	Sig    string
	Detail map[string]any
}

type c07CaseResult struct {
	Sig             string
	Detail          map[string]any
	Inconcl         string
	Steps           int
	Outcomes        map[string]bool
	Restarts        int
	Stops           int
	Suspends        int
	Escalates       int
	Resumes         int
	Exhausted       int
	ExhaustedAcross int // one-for-all budget used up by faults of different siblings
	Chains          int
	BothRules       bool               // a lookup was decided while a typed and an any-error rule were both in force
	Soft            []c07SoftViolation // violations after which the case continued
	Fatal           bool               // the batch cannot go on
	CutAmbig        bool
	OneForAllN      int // steps under one-for-all with >= 1 sibling
	History         []string
}

// c07Env is what a batch shares between its cases.
type c07Env struct {
	t       *testing.T
	sys     *actorSystem
	fence   *PID
	drain   func(prefix string, into c07Events)
	logTail func() []string
}

func c07Role(target, n *c07Node) string {
	switch {
	case n == target:
		return "target"
	case n.parent == target.parent:
		return "sibling"
	case n == target.parent:
		return "parent"
	case n.isAncestorOf(target):
		return "ancestor"
	case target.isAncestorOf(n):
		return "descendant"
	}
	return "other"
}

func c07RunCase(env *c07Env, c *c07Case, rng *rand.Rand) (res c07CaseResult) {
	res.Outcomes = map[string]bool{}
	ctx := context.Background()
	led := c07NewLedger()
	mk := func(label string) *c07Actor { return &c07Actor{name: c.Prefix + "-" + label, led: led} }
	var all []*c07Node
	node := func(label string, parent *c07Node, cfg *c07Cfg) *c07Node {
		n := &c07Node{name: c.Prefix + "-" + label, label: label, parent: parent, cfg: cfg, state: c07Running, known: true}
		if parent != nil {
			parent.children = append(parent.children, n)
		}
		all = append(all, n)
		return n
	}
	// a spawn in the set-up can fail only when something else went wrong: the actor
	// system stopped by itself (known shape, judged) or the parent died (not judged)
	spawnFailed := func(what string, err error) {
		if !env.sys.Running() {
			res.Sig = "system:stopped-while-supervising-user-actors"
			res.Detail = map[string]any{"spawn_error": err.Error(), "spawning": what, "case": c.Key(), "runtime_warnings_tail": env.logTail()}
			res.Fatal = true
			return
		}
		res.Inconcl = fmt.Sprintf("set-up: spawn %s failed: %v", what, err)
	}
	G := node("G", nil, nil)
	var err error
	if G.pid, err = env.sys.Spawn(ctx, G.name, mk("G"), WithLongLived()); err != nil {
		if !env.sys.Running() {
			// nothing in these scripts may take the whole actor system down
			res.Sig = "system:stopped-while-supervising-user-actors"
			res.Detail = map[string]any{"spawn_error": err.Error(), "case": c.Key(), "runtime_warnings_tail": env.logTail()}
			res.Fatal = true
			return
		}
		env.t.Fatalf("c07 spawn G: %v", err)
	}
	defer func() { _ = G.pid.Shutdown(ctx) }()
	P := node("P", G, nil)
	if P.pid, err = G.pid.SpawnChild(ctx, P.name, mk("P"), WithLongLived()); err != nil {
		spawnFailed("P", err)
			return
	}
	shared := c.ChildCfg.build()
	var targets []*c07Node
	for i := 0; i < c.NChild; i++ {
		label := fmt.Sprintf("C%d", i)
		n := node(label, P, c.ChildCfg)
		opts := []SpawnOption{WithLongLived()}
		if shared != nil {
			opts = append(opts, WithSupervisor(shared))
		}
		if n.pid, err = P.pid.SpawnChild(ctx, n.name, mk(label), opts...); err != nil {
			spawnFailed("child", err)
			return
		}
		targets = append(targets, n)
	}
	if c.HasGC {
		n := node("GC", targets[0], c.GCCfg)
		opts := []SpawnOption{WithLongLived()}
		if s := c.GCCfg.build(); s != nil {
			opts = append(opts, WithSupervisor(s))
		}
		if n.pid, err = targets[0].pid.SpawnChild(ctx, n.name, mk("GC"), opts...); err != nil {
			spawnFailed("grandchild", err)
			return
		}
		targets = append(targets, n)
	}
	env.drain(c.Prefix, c07Events{}) // discard start-up events

	observe := func(probe func(*c07Node) bool) map[*c07Node]c07Snap {
		out := map[*c07Node]c07Snap{}
		for _, n := range all {
			s := c07Snap{state: c07PidState(n.pid), restarts: n.pid.RestartCount()}
			led.mu.Lock()
			s.prestarts, s.attempts, s.poststops = led.prestarts[n.name], led.attempts[n.name], led.poststops[n.name]
			led.mu.Unlock()
			if probe(n) && s.state == c07Running {
				reply, err := Ask(ctx, n.pid, &c07Probe{}, 20*time.Second)
				if err != nil {
					s.probeErr = err.Error()
				} else if r, ok := reply.(*c07ProbeReply); ok {
					s.ctr, s.gen, s.probed = r.Ctr, r.Gen, true
				} else {
					s.probeErr = fmt.Sprintf("unexpected reply %T", reply)
				}
			}
			out[n] = s
		}
		return out
	}
	var curTarget, prevTarget *c07Node
	fail := func(sig string, d map[string]any) {
		if res.Sig != "" {
			return
		}
		// diagnostic classification: is a live member of the failing group no
		// longer linked to its parent in the actor tree? (then the runtime cannot
		// find the supervisor / the siblings, whatever the directive says)
		links := map[string]string{}
		orphan := ""
		for _, n := range all {
			if n.parent == nil || c07PidState(n.pid) == c07Stopped {
				continue
			}
			pp := n.pid.Parent()
			if pp != nil && pp.Equals(n.parent.pid) {
				links[n.label] = "linked"
				continue
			}
			links[n.label] = "MISSING"
			if curTarget != nil && n.parent == curTarget.parent && n.known && orphan == "" {
				orphan = "sibling"
				if n == curTarget {
					orphan = "target"
				}
			}
		}
		d["actor_tree_parent_links"] = fmt.Sprint(links)
		if tail := env.logTail(); len(tail) > 0 {
			if len(tail) > 12 {
				tail = tail[len(tail)-12:]
			}
			d["runtime_warnings_tail"] = tail
		}
		if orphan != "" {
			d["would_be_signature"] = sig
			sig = "actor-tree:live-child-lost-parent-link:" + orphan
		}
		if env.sys.isStopping() || !env.sys.Running() {
			// whatever was observed, it was observed on a system that is going down
			d["would_be_signature"] = sig
			d["runtime_warnings_tail"] = env.logTail()
			sig = "system:stopped-while-supervising-user-actors"
			res.Fatal = true
		}
		res.Sig = sig
		d["config_children"] = c.ChildCfg.String()
		if c.HasGC {
			d["config_grandchild"] = c.GCCfg.String()
		}
		d["family"] = fmt.Sprintf("G -> P -> %d children, grandchild under C0: %v", c.NChild, c.HasGC)
		d["history"] = append([]string(nil), res.History...)
		res.Detail = d
	}
	quiet := func(pid *PID) func() bool {
		return func() bool {
			return pid.mailbox.IsEmpty() && pid.systemMailbox.IsEmpty() && pid.schedState.v.Load() == dispatchIdle && pid.mailbox.IsEmpty()
		}
	}
	faultNo := 0

	for stepNo, it := range c.Intents {
		// ---- choose a target that can fail and whose parent can react
		var target *c07Node
		for off := 0; off < len(targets) && target == nil; off++ {
			cand := targets[(it.Target+off)%len(targets)]
			if cand.known && cand.state == c07Running && cand.parent.known && cand.parent.state == c07Running {
				target = cand
			}
		}
		if target == nil {
			break
		}
		curTarget = target
		cfg := target.cfg
		window := cfg.window()
		if it.Outside && window > 0 && window <= time.Second {
			time.Sleep(2*window + 50*time.Millisecond)
		}
		if it.Bump {
			for _, n := range all {
				if n.known && n.state == c07Running && rng.Intn(2) == 0 {
					_ = Tell(ctx, n.pid, &c07Bump{})
				}
			}
		}
		// ---- pre-state; an actor whose fate was decided must still be where the model left it
		pre := observe(func(n *c07Node) bool { return n.known })
		for _, n := range all {
			if n.known && pre[n].state != n.state {
				fail(fmt.Sprintf("late-change:%s-became-%s:%s", c07StateNames[n.state], c07StateNames[pre[n].state], strings.TrimRight(n.label, "0123456789")), map[string]any{"actor": n.label, "before_step": stepNo})
				return
			}
			if pre[n].probeErr != "" && n.known {
				res.Inconcl = fmt.Sprintf("probe of %s failed before step %d: %s", n.label, stepNo, pre[n].probeErr)
				return
			}
		}
		env.drain(c.Prefix, c07Events{})
		led.mu.Lock()
		sigBase := len(led.signals)
		led.mu.Unlock()

		// ---- inject
		faultNo++
		f := &c07Fault{ID: faultNo, Kind: it.Kind}
		chain := it.Chain > 0 && target.label == "GC"
		led.mu.Lock()
		led.sent[f.ID] = f
		if it.FailOnce {
			led.failNext[target.name] = true
		}
		if chain {
			led.reraise[target.parent.name] = it.Chain
		}
		reraisedBefore := led.reraised[target.parent.name]
		led.mu.Unlock()
		tLo := time.Now()
		if err := Tell(ctx, target.pid, f); err != nil {
			res.Inconcl = fmt.Sprintf("fault %d not accepted by %s: %v", f.ID, target.label, err)
			return
		}
		if !verifrt.WaitUntil(40*time.Second, func() bool {
			led.mu.Lock()
			_, ok := led.raised[f.ID]
			led.mu.Unlock()
			return ok && quiet(target.pid)()
		}) {
			res.Inconcl = fmt.Sprintf("fault %d was not handled by %s within 40s", f.ID, target.label)
			return
		}
		if err := c07Fence(env.fence); err != nil {
			res.Inconcl = err.Error()
			return
		}
		// the fence passed: the Panicking message (if any) was put into the parent's
		// mailbox before; the parent going idle with empty mailboxes means it has
		// handled it (and a PanicSignal it sent to itself while doing so)
		if !verifrt.WaitUntil(40*time.Second, quiet(target.parent.pid)) {
			res.Inconcl = fmt.Sprintf("parent %s did not become idle within 40s after fault %d", target.parent.label, f.ID)
			return
		}
		chained := false
		if chain && cfg.lookup(c07KindType(it.Kind)) == int(supervisor.EscalateDirective) {
			// the re-raise happens inside the handler invocation that logs the
			// PanicSignal: wait for that log entry rather than trusting idleness alone
			verifrt.WaitUntil(20*time.Second, func() bool {
				led.mu.Lock()
				defer led.mu.Unlock()
				for _, sr := range led.signals[sigBase:] {
					if sr.FaultID == f.ID {
						return true
					}
				}
				return false
			})
			verifrt.WaitUntil(40*time.Second, quiet(target.parent.pid))
		}
		if chain {
			led.mu.Lock()
			chained = led.reraised[target.parent.name] > reraisedBefore
			delete(led.reraise, target.parent.name)
			led.mu.Unlock()
			if chained {
				// the parent failed in turn while handling the PanicSignal
				if err := c07Fence(env.fence); err != nil {
					res.Inconcl = err.Error()
					return
				}
				if !verifrt.WaitUntil(40*time.Second, quiet(target.parent.parent.pid)) {
					res.Inconcl = fmt.Sprintf("grandparent did not become idle within 40s after chained fault %d", f.ID)
					return
				}
			}
		}
		tHi := time.Now()

		// ---- what the statement demands
		both := false
		{
			typed, anyRule := false, false
			for k := range cfg.Extra {
				if k == "any" {
					anyRule = true
				} else {
					typed = true
				}
			}
			if cfg.Any != c07DirNone {
				anyRule = true
			} else {
				typed = true // the PanicError default and the WithDirective entries
			}
			both = typed && anyRule && !cfg.Default
		}
		type cntSnap struct {
			lo, hi int
			has    bool
			l1, l2 time.Time
		}
		snap := map[*c07Node]cntSnap{}
		for _, n := range all {
			snap[n] = cntSnap{n.cntLo, n.cntHi, n.hasLast, n.lastLo, n.lastHi}
		}
		// build computes the demands for this step given the upper bound of the
		// moment the runtime stamped the fault(s); it advances the model's counters
		build := func(hi time.Time) (*c07StepExp, string) {
			for n, c := range snap {
				n.cntLo, n.cntHi, n.hasLast, n.lastLo, n.lastHi = c.lo, c.hi, c.has, c.l1, c.l2
			}
			e := c07Expect(all, target, c07KindType(it.Kind), f.ID, 1, tLo, hi)
			text := fmt.Sprintf("step %d: %s on %s => %s (%s)", stepNo, c07KindNames[it.Kind], target.label, e.directive, e.strategy)
			if e.ambiguous || !chained {
				return e, text
			}
			par := target.parent
			e2 := c07Expect(all, par, c07KindType(it.Chain-1), f.ID, 2, tLo, hi)
			text += fmt.Sprintf(" ; chained: %s re-raised %s => %s (%s)", par.label, c07KindNames[it.Chain-1], e2.directive, e2.strategy)
			if e2.ambiguous {
				e.ambiguous = true
				return e, text
			}
			for n, x2 := range e2.per {
				if x2.judged && x2.untouched && n != par {
					continue // keep what the first failure demands
				}
				e.per[n] = x2
			}
			e.signals = append(e.signals, e2.signals...)
			e.directive += "+" + e2.directive
			return e, text
		}
		exp, stepText := build(tHi)
		if exp.ambiguous {
			res.CutAmbig = true
			res.History = append(res.History, stepText+" [timing relative to the window undecidable: case cut]")
			return
		}
		res.Outcomes[exp.directive] = true
		if both {
			res.BothRules = true
		}
		if exp.strategy == "OneForAll" && len(target.parent.children) > 1 {
			res.OneForAllN++
		}

		// ---- let asynchronous restarts finish (watchdog 20s, normal: milliseconds)
		ev := c07Events{}
		settled := verifrt.WaitUntil(20*time.Second, func() bool {
			env.drain(c.Prefix, ev)
			for n, x := range exp.per {
				if !x.judged {
					continue
				}
				if c07PidState(n.pid) != x.state {
					return false
				}
				if x.restarted {
					led.mu.Lock()
					ok := led.prestarts[n.name] > pre[n].prestarts
					led.mu.Unlock()
					if !ok || ev.get(n.name, "restarted") == 0 {
						return false
					}
				}
				if x.stoppedNow && ev.get(n.name, "stopped") == 0 {
					return false
				}
				if x.suspendedNow && ev.get(n.name, "suspended") == 0 {
					return false
				}
			}
			led.mu.Lock()
			defer led.mu.Unlock()
			for _, se := range exp.signals {
				found := false
				for _, sr := range led.signals[sigBase:] {
					if sr.FaultID == se.FaultID && sr.Depth == se.Depth {
						found = true
					}
				}
				if !found {
					return false
				}
			}
			return true
		})
		_ = settled
		// every effect demanded has been seen (or the watchdog expired): the runtime
		// stamped the fault before now. Re-derive the demands with this safe upper
		// bound; if the budget decision could have gone the other way, do not judge.
		{
			first := exp.directive
			var text2 string
			exp, text2 = build(time.Now())
			if exp.ambiguous || exp.directive != first {
				res.CutAmbig = true
				res.History = append(res.History, text2+" [timing relative to the window undecidable: case cut]")
				return
			}
		}
		if chained {
			res.Chains++
		}
		res.History = append(res.History, stepText)
		time.Sleep(2 * time.Millisecond) // best effort: lets stray extra actions surface; never decides anything
		if strings.Contains(exp.directive, "budget-exhausted") {
			// nothing positive can be awaited for "left suspended": give a restart
			// that must not happen some room to show itself (detection effort only;
			// a later one is still caught by the next step's pre-state comparison)
			room := 250*time.Millisecond + 2*cfg.MaxDelay
			verifrt.WaitUntil(room, func() bool {
				led.mu.Lock()
				defer led.mu.Unlock()
				for n, x := range exp.per {
					if x.judged && x.state == c07Suspended && led.attempts[n.name] > pre[n].attempts {
						return true
					}
				}
				return false
			})
			verifrt.WaitUntil(5*time.Second, func() bool { // let such a restart finish before observing
				for n, x := range exp.per {
					led.mu.Lock()
					started := led.attempts[n.name] > pre[n].attempts
					led.mu.Unlock()
					if x.judged && x.state == c07Suspended && started && !n.pid.IsRunning() {
						return false
					}
				}
				return true
			})
		}
		post := observe(func(n *c07Node) bool { return exp.per[n].judged })
		env.drain(c.Prefix, ev)
		led.mu.Lock()
		delete(led.failNext, target.name)
		newSignals := append([]c07SignalRec(nil), led.signals[sigBase:]...)
		led.mu.Unlock()
		res.Steps++

		// ---- compare
		tag := func(aspect string, n *c07Node) string {
			return fmt.Sprintf("%s:%s:%s:%s", aspect, exp.directive, exp.strategy, exp.per[n].role)
		}
		detail := func(n *c07Node, extra map[string]any) map[string]any {
			d := map[string]any{"step": stepText, "actor": n.label, "pre": fmt.Sprintf("%+v", pre[n]), "post": fmt.Sprintf("%+v", post[n]), "events": fmt.Sprint(ev[n.name]), "all_events_of_step": fmt.Sprint(ev["#paths"]), "sched": fmt.Sprintf("state=%s mailboxEmpty=%v sysEmpty=%v", vfSchedStateName(n.pid), n.pid.mailbox.IsEmpty(), n.pid.systemMailbox.IsEmpty()), "error_type": c07KindType(it.Kind), "fault_counter_model": fmt.Sprintf("[%d,%d] max=%d window=%s", target.cntLo, target.cntHi, cfg.maxRetries(), cfg.window())}
			for k, v := range extra {
				d[k] = v
			}
			return d
		}
		for _, n := range all {
			x := exp.per[n]
			a, b := pre[n], post[n]
			if !x.judged {
				same := x.keepIfSame && n.known && a.state == b.state && a.prestarts == b.prestarts && a.attempts == b.attempts && a.poststops == b.poststops && a.restarts == b.restarts && len(ev[n.name]) == 0
				if !same {
					n.known = false
				}
				n.state = b.state
				continue
			}
			if b.state != x.state {
				switch {
				case strings.Contains(exp.directive, "budget-exhausted") && x.state == c07Suspended && b.state == c07Running && b.prestarts > a.prestarts:
					// the budget of the restarted group was used up, yet it was restarted again
					fail("budget:group-restarted-after-exhaustion:"+exp.strategy, detail(n, map[string]any{"role": x.role}))
				case exp.directive == "Restart" && x.restarted && b.state == c07Suspended && cfg.maxRetries() > 0 && cfg.window() > 0:
					fail("budget:group-suspended-before-exhaustion:"+exp.strategy, detail(n, map[string]any{"role": x.role}))
				default:
					fail(tag(fmt.Sprintf("state:want-%s-got-%s", c07StateNames[x.state], c07StateNames[b.state]), n), detail(n, nil))
				}
				return
			}
			switch {
			case x.restarted:
				if d := b.prestarts - a.prestarts; d != 1 {
					fail(tag(fmt.Sprintf("prestart:want+1-got+%d", d), n), detail(n, nil))
					return
				}
				if got := ev.get(n.name, "restarted"); got != 1 {
					fail(tag(fmt.Sprintf("event:restarted-want1-got%d", got), n), detail(n, nil))
					return
				}
				if b.probeErr != "" {
					res.Inconcl = fmt.Sprintf("restarted %s did not answer: %s", n.label, b.probeErr)
					return
				}
				if b.ctr != 0 || b.gen <= a.gen {
					fail(tag("fresh-state:counter-survived-restart", n), detail(n, nil))
					return
				}
				if b.restarts <= a.restarts {
					// signature without the directive label: the same defect shows up in chained steps too
					// reported, but the case goes on: this one must not hide what
					// later restarts of the same group do
					if len(res.Soft) == 0 {
						d := detail(n, map[string]any{"restart_count_before": a.restarts, "restart_count_after": b.restarts})
						d["config_children"] = c.ChildCfg.String()
						d["history"] = append([]string(nil), res.History...)
						res.Soft = append(res.Soft, c07SoftViolation{fmt.Sprintf("restart-count:not-bumped:%s:%s", exp.strategy, x.role), d})
					}
				}
			case x.untouched:
				if b.prestarts != a.prestarts || b.attempts != a.attempts {
					fail(tag(fmt.Sprintf("prestart:want+0-got+%d", b.prestarts-a.prestarts), n), detail(n, nil))
					return
				}
				for _, kind := range []string{"restarted", "stopped", "suspended"} {
					if got := ev.get(n.name, kind); got != 0 {
						fail(tag("event:unexpected-"+kind, n), detail(n, nil))
						return
					}
				}
				if b.state == c07Running {
					if b.probeErr != "" {
						res.Inconcl = fmt.Sprintf("%s did not answer: %s", n.label, b.probeErr)
						return
					}
					if a.probed && (b.ctr != a.ctr || b.gen != a.gen) {
						aspect := "state:counter-changed"
						if x.answers {
							aspect = "resume-state:counter-lost"
						}
						fail(tag(aspect, n), detail(n, nil))
						return
					}
				}
				if b.restarts != a.restarts && b.state != c07Stopped {
					fail(tag("restart-count:changed-without-restart", n), detail(n, nil))
					return
				}
			default: // suspended now or stopped now
				if b.prestarts != a.prestarts {
					fail(tag(fmt.Sprintf("prestart:want+0-got+%d", b.prestarts-a.prestarts), n), detail(n, nil))
					return
				}
				if got := ev.get(n.name, "restarted"); got != 0 {
					fail(tag("event:unexpected-restarted", n), detail(n, nil))
					return
				}
				if x.stoppedNow {
					if got := ev.get(n.name, "stopped"); got != 1 {
						fail(tag(fmt.Sprintf("event:stopped-want1-got%d", got), n), detail(n, nil))
						return
					}
				} else if x.state != c07Stopped {
					if got := ev.get(n.name, "stopped"); got != 0 {
						fail(tag("event:unexpected-stopped", n), detail(n, nil))
						return
					}
				}
				if x.suspendedNow && ev.get(n.name, "suspended") == 0 {
					fail(tag("event:suspended-want>=1-got0", n), detail(n, nil))
					return
				}
			}
			n.state = x.state
		}
		// ---- escalations: exactly the expected PanicSignals, each once, at an ancestor
		{
			used := make([]bool, len(newSignals))
			for _, se := range exp.signals {
				cnt, at := 0, ""
				for i, s := range newSignals {
					if s.FaultID == se.FaultID && s.Depth == se.Depth {
						used[i] = true
						cnt++
						at = s.Receiver
						if !se.Allowed[s.Receiver] {
							fail(fmt.Sprintf("escalation:misrouted:%s:depth%d", exp.strategy, se.Depth), map[string]any{"step": stepText, "received_by": s.Receiver, "allowed": se.AllowedS})
							return
						}
						if !s.SameMsg {
							fail(fmt.Sprintf("escalation:wrong-message:%s:depth%d", exp.strategy, se.Depth), map[string]any{"step": stepText, "received_by": s.Receiver})
							return
						}
					}
				}
				if cnt == 0 {
					fail(fmt.Sprintf("escalation:not-delivered:%s:depth%d", exp.strategy, se.Depth), map[string]any{"step": stepText, "allowed": se.AllowedS, "signals_seen": fmt.Sprintf("%+v", newSignals)})
					return
				}
				if cnt > 1 {
					fail(fmt.Sprintf("escalation:duplicated:%s:depth%d", exp.strategy, se.Depth), map[string]any{"step": stepText, "times": cnt, "last_at": at})
					return
				}
			}
			for i, s := range newSignals {
				if !used[i] {
					fail(fmt.Sprintf("escalation:unexpected:%s:%s", exp.directive, exp.strategy), map[string]any{"step": stepText, "signal": fmt.Sprintf("%+v", s)})
					return
				}
			}
		}
		// ---- evidence
		for n, x := range exp.per {
			if !x.judged {
				continue
			}
			switch {
			case x.restarted:
				res.Restarts++
			case x.stoppedNow:
				res.Stops++
			case x.suspendedNow:
				res.Suspends++
			case x.answers && n == target:
				res.Resumes++
			}
		}
		res.Escalates += len(exp.signals)
		if strings.Contains(exp.directive, "budget-exhausted") {
			res.Exhausted++
			if exp.strategy == "OneForAll" && prevTarget != nil && prevTarget != target {
				res.ExhaustedAcross++
			}
		}
		prevTarget = target
		// ---- the ancestor acts: reinstate a suspended target so that the script can go on
		if it.Reinstate {
			for _, n := range targets {
				if n.known && n.state == c07Suspended && n.parent.known && n.parent.state == c07Running {
					if err := n.parent.pid.Reinstate(n.pid); err == nil && n.pid.IsRunning() {
						n.state = c07Running
					} else {
						n.known = false
					}
				}
			}
		}
	}
	return res
}

func TestVerif_C07(t *testing.T) {
	r := verifrt.Start(t, "C07")
	defer r.Finish()
	r.Rule("case = generated supervisor config (strategy, WithDirective rules over 3 error types + PanicError, any-error rule or none, both kinds in force via SetDirectiveByType, default supervisor, retry budget 0-3 x window {none,200ms,5s}, backoff 1-8ms) shared by 1-3 sibling children of one parent (+ optional grandchild with its own config), x script of 1-6 faults (ctx.Err of 3 types, panic(error), panic(string), panic(PanicError); alternating siblings; same error hammered; one case in six budget-focused: all errors -> Restart, budget 1-2 in a 5s/1m window, 2-3 siblings failing in strict alternation back to back, one-for-all (group budget: every member's counter is bumped per group restart) or one-for-one (own budget per child); PreStart failing once; grandchild escalation re-raised by its parent = escalate chain; gaps inside / beyond the window), injected one at a time with the supervision pipeline fenced to rest; oracle = reference supervisor model (directive lookup typed -> any -> suspend; Stop/Restart/Resume/Escalate effects on target and, where the statement speaks, siblings; fault counter with window as time intervals) vs PID state, PreStart counts, RestartCount, in-actor counter, event stream and PanicSignals logged by every family member; non-trivial = >= 2 judged faults with >= 2 different outcomes; distinct by config + script text")
	r.Assume("one FIFO supervision consumer per system: a later failure of a fence actor being acted upon implies earlier failures were acted upon (quiescence only)")
	r.Assume("a restart that the parent has dispatched completes within 20s (normal: milliseconds); after that a still-suspended actor counts as not restarted")

	ring := &c07LogRing{}
	sysOpts := []Option{WithLogger(log.NewZap(log.WarningLevel, ring))}
	if os.Getenv("C07_DEBUG") != "" {
		sysOpts = []Option{WithLogger(log.NewZap(log.WarningLevel, os.Stderr))}
	}
	sys := vfNewSystem(t, sysOpts...)
	defer vfStop(sys)
	sub, err := sys.Subscribe()
	if err != nil {
		t.Fatalf("subscribe: %v", err)
	}
	fence, err := sys.Spawn(context.Background(), "c07-fence", &c07FenceActor{}, WithLongLived())
	if err != nil {
		t.Fatalf("spawn fence: %v", err)
	}
	var evSeen int64
	env := &c07Env{t: t, sys: sys, fence: fence, logTail: ring.tail}
	env.drain = func(prefix string, into c07Events) {
		for m := range sub.Iterator() {
			var path Path
			var kind string
			switch e := m.Payload().(type) {
			case *ActorSuspended:
				path, kind = e.ActorPath(), "suspended"
			case *ActorRestarted:
				path, kind = e.ActorPath(), "restarted"
			case *ActorStopped:
				path, kind = e.ActorPath(), "stopped"
			case *ActorStarted:
				path, kind = e.ActorPath(), "started"
			case *ActorReinstated:
				path, kind = e.ActorPath(), "reinstated"
			default:
				continue
			}
			if path == nil {
				continue
			}
			if name := path.Name(); strings.HasPrefix(name, prefix+"-") {
				into.add(name, kind, path.String())
				evSeen++
			}
		}
	}

	rng := r.Rand(1)
	n := r.N(400, 4000)
	for i := 0; i < n; i++ {
		c := c07GenCase(rng, i)
		// one case in three runs with a few hot delay sites in the actor tree /
		// death watch / supervision paths (the bookkeeping that runs beside the directives)
		noisy := rng.Intn(3) == 0
		if noisy {
			verifrt.StartNoise(verifrt.NoiseConfig{
				Seed: rng.Int63(), GoschedPerMille: 10, HotSites: 2,
				Candidates:  vfNoiseSites("pid_tree.go", "death_watch.go", "supervision.go"),
				HotPerMille: 300, MinDelay: 5 * time.Millisecond, MaxDelay: 30 * time.Millisecond, Budget: 12,
			})
		}
		res := c07RunCase(env, c, rng)
		if noisy {
			_, delays := verifrt.StopNoise()
			r.Count("noise_delays_injected", delays)
			r.Count("cases_with_noise", 1)
		}
		r.Case(c.Key(), res.Steps >= 2 && len(res.Outcomes) >= 2)
		r.Count("faults_judged", int64(res.Steps))
		r.Count("restarts_checked", int64(res.Restarts))
		r.Count("stops_checked", int64(res.Stops))
		r.Count("suspensions_checked", int64(res.Suspends))
		r.Count("resumes_checked", int64(res.Resumes))
		r.Count("escalations_checked", int64(res.Escalates))
		r.Count("budget_exhaustions", int64(res.Exhausted))
		r.Count("group_budget_exhausted_by_alternating_siblings", int64(res.ExhaustedAcross))
		if c.Budget {
			r.Count("budget_focused_cases", 1)
		}
		r.Count("escalate_chains", int64(res.Chains))
		r.Count("one_for_all_steps_with_siblings", int64(res.OneForAllN))
		if res.BothRules {
			r.Count("cases_with_typed_and_any_rule_in_force", 1)
		}
		if res.CutAmbig {
			r.Count("cases_cut_by_timing_ambiguity", 1)
		}
		if res.Inconcl != "" {
			if !sys.Running() {
				// the actor system stopped by itself between two cases (same shape as
				// the in-case verdict: the death watch failed and the guardian shut
				// the system down); nothing more can be judged in this batch
				r.Violation("system:stopped-while-supervising-user-actors", map[string]any{"case": i, "observed": res.Inconcl, "log_tail": ring.tail()})
				break
			}
			r.Inconclusive("case %d: %s", i, res.Inconcl)
		}
		for _, sv := range res.Soft {
			r.Violation(sv.Sig, sv.Detail)
		}
		if res.Sig != "" {
			r.Violation(res.Sig, res.Detail)
		}
		if res.Fatal {
			break
		}
		if i < 3 {
			r.Sample(map[string]any{"config": c.ChildCfg.String(), "children": c.NChild, "grandchild": c.HasGC, "history": res.History})
		}
	}
	r.Count("events_seen", evSeen)
}
