//go:build verif

package actor

import (
	"context"
	"errors"
	"fmt"
	"math/rand"
	"runtime"
	"sync"
	"sync/atomic"
	"testing"
	"time"

	"github.com/tochemey/goakt/v4/internal/verifrt"
	"github.com/tochemey/goakt/v4/supervisor"
)

// Shared workload of C01 (no concurrent handler / turn), C02 (exactly once, no
// lost wake-up) and C03 (per-sender FIFO). One case = one knob tuple + one noise
// policy on one fresh actor system; each property judges its own part of what the
// monitors observed.

type c01Msg struct {
	Sender int
	Seq    int
	Idx    int  // global index into the case's ledger
	Panic  bool // handler panics after recording (supervision disturbance)
	Flush  bool // harness nudge: UnstashAll, not part of the ledger
}

type c01Knobs struct {
	Mailbox   string
	Senders   int
	PerSender int
	Dwell     int // 0 none, 1 Gosched, 2 ~50us spin
	Budget    int
	Procs     int
	Disturb   string // none | restart | panic-resume | panic-restart | batchtell | actorsenders | stash
	Noise     int    // number of hot sites
}

func (k c01Knobs) String() string {
	return fmt.Sprintf("mb=%s s=%d n=%d dwell=%d budget=%d procs=%d disturb=%s noise=%d", k.Mailbox, k.Senders, k.PerSender, k.Dwell, k.Budget, k.Procs, k.Disturb, k.Noise)
}

// c01Ledger is shared by all incarnations of the case's actor.
type c01Ledger struct {
	handled   []atomic.Int32 // per message index: times handled
	inHandler atomic.Int64   // token of the invocation in progress (0 = none)
	tok       atomic.Int64
	overlaps  atomic.Int64
	overlapAt atomic.Value // string witness
	maxConc   atomic.Int64
	total     atomic.Int64
	orderBad  atomic.Int64
	orderWit  atomic.Value
	dupWit    atomic.Value
	prestarts atomic.Int64
	stashMode bool
	stashedOnce []atomic.Bool
	stashes   atomic.Int64
}

type c01Actor struct {
	led   *c01Ledger
	dwell int
	// plain state: only ever touched inside Receive, so that the race detector
	// reports a missing happens-before edge between two turns
	plain   int
	lastSeq map[int]int
	stashed int
}

func (a *c01Actor) PreStart(*Context) error {
	a.led.prestarts.Add(1)
	return nil
}

func (a *c01Actor) PostStop(*Context) error { return nil }

func (a *c01Actor) Receive(ctx *ReceiveContext) {
	m, ok := ctx.Message().(*c01Msg)
	if !ok {
		return
	}
	led := a.led
	tok := led.tok.Add(1)
	if !led.inHandler.CompareAndSwap(0, tok) {
		led.overlaps.Add(1)
		led.overlapAt.Store(fmt.Sprintf("invocation %d for msg(sender=%d,seq=%d) entered while invocation %d in progress; goroutine %d\n%s", tok, m.Sender, m.Seq, led.inHandler.Load(), verifrt.GoID(), verifrt.Stack()))
	}
	a.plain++
	if m.Flush {
		ctx.UnstashAll()
		led.inHandler.CompareAndSwap(tok, 0)
		return
	}
	if led.stashMode && m.Seq%7 == 3 && led.stashedOnce[m.Idx].CompareAndSwap(false, true) {
		led.stashes.Add(1)
		ctx.Stash()
		led.inHandler.CompareAndSwap(tok, 0)
		return
	}
	n := led.handled[m.Idx].Add(1)
	if n > 1 {
		led.dupWit.Store(fmt.Sprintf("msg(sender=%d,seq=%d) handled %d times", m.Sender, m.Seq, n))
	}
	if a.lastSeq == nil {
		a.lastSeq = map[int]int{}
	}
	if last, seen := a.lastSeq[m.Sender]; seen && m.Seq <= last && n == 1 && !led.stashMode {
		led.orderBad.Add(1)
		led.orderWit.Store(fmt.Sprintf("sender %d: seq %d handled after seq %d", m.Sender, m.Seq, last))
	}
	if m.Seq > a.lastSeq[m.Sender] {
		a.lastSeq[m.Sender] = m.Seq
	}
	led.total.Add(1)
	switch a.dwell {
	case 1:
		runtime.Gosched()
	case 2:
		t0 := time.Now()
		for time.Since(t0) < 50*time.Microsecond {
		}
	}
	if led.stashMode && m.Seq%5 == 0 {
		ctx.UnstashAll()
	}
	if !led.inHandler.CompareAndSwap(tok, 0) {
		led.overlaps.Add(1)
		led.overlapAt.Store(fmt.Sprintf("invocation %d found the in-handler word changed to %d at exit", tok, led.inHandler.Load()))
	}
	if m.Panic {
		panic(errors.New("c01 injected"))
	}
}

type c01Sender struct {
	target *PID
	msgs   []*c01Msg
	done   chan struct{}
	accept *[]atomic.Bool
}

func (s *c01Sender) PreStart(*Context) error { return nil }
func (s *c01Sender) PostStop(*Context) error { return nil }
func (s *c01Sender) Receive(ctx *ReceiveContext) {
	if _, ok := ctx.Message().(*PostStart); ok {
		return
	}
	if _, ok := ctx.Message().(string); ok {
		for _, m := range s.msgs {
			if err := ctx.Self().Tell(context.Background(), s.target, m); err == nil {
				(*s.accept)[m.Idx].Store(true)
			}
		}
		close(s.done)
	}
}

type c01Obs struct {
	Knobs        c01Knobs
	Accepted     int
	Handled      int
	Overlaps     int64
	OverlapWit   string
	TurnOverlaps int64
	TurnWit      string
	Turns        int64
	Dups         []string
	Lost         []string
	Stuck        string
	OrderBad     int64
	OrderWit     string
	Restarts     int64
	HotSites     []string
	Yields       int64
	Delays       int64
	JudgeLoss    bool // the actor was not restarted/stopped: every accepted message must be handled
	Contended    bool // more than one sender overlapped a turn (observed)
}

func c01GenKnobs(rng *rand.Rand, kinds []string, disturbs []string) c01Knobs {
	k := c01Knobs{
		Mailbox:   kinds[rng.Intn(len(kinds))],
		Senders:   []int{1, 2, 4, 8, 16}[rng.Intn(5)],
		PerSender: []int{1, 3, 40, 300, 600}[rng.Intn(5)],
		Dwell:     rng.Intn(3),
		Budget:    []int{1, 2, 32, 0}[rng.Intn(4)],
		Procs:     []int{2, 3, 8, 16}[rng.Intn(4)],
		Disturb:   disturbs[rng.Intn(len(disturbs))],
		Noise:     rng.Intn(4),
	}
	if k.Senders*k.PerSender > 5000 {
		k.PerSender = 300
	}
	return k
}

// c01RunCase runs one case and returns what the monitors observed.
func c01RunCase(t *testing.T, k c01Knobs, seed int64) c01Obs {
	obs := c01Obs{Knobs: k}
	rng := rand.New(rand.NewSource(seed))
	prevProcs := runtime.GOMAXPROCS(k.Procs)
	defer runtime.GOMAXPROCS(prevProcs)

	tm := &vfTurnMonitor{}
	var turnWit atomic.Value
	tm.onBad = func(what string, s any) {
		turnWit.Store(fmt.Sprintf("%s on %T goroutine %d\n%s", what, s, verifrt.GoID(), verifrt.Stack()))
	}
	uninstall := vfInstallTurnMonitor(tm)
	defer uninstall()

	var opts []Option
	if k.Budget > 0 {
		opts = append(opts, WithThroughputBudget(k.Budget))
	}
	sys := vfNewSystem(t, opts...)
	defer vfStop(sys)
	ctx := context.Background()

	total := k.Senders * k.PerSender
	led := &c01Ledger{handled: make([]atomic.Int32, total), stashMode: k.Disturb == "stash", stashedOnce: make([]atomic.Bool, total)}
	act := &c01Actor{led: led, dwell: k.Dwell}
	capacity := total + 16
	spawnOpts := []SpawnOption{WithMailbox(vfNewMailbox(k.Mailbox, capacity, func(a, b any) bool {
		x, ok1 := a.(*c01Msg)
		y, ok2 := b.(*c01Msg)
		return ok1 && ok2 && x.Seq%3 > y.Seq%3
	})), WithLongLived()}
	switch k.Disturb {
	case "panic-resume":
		spawnOpts = append(spawnOpts, WithSupervisor(supervisor.NewSupervisor(supervisor.WithAnyErrorDirective(supervisor.ResumeDirective))))
	case "panic-restart":
		spawnOpts = append(spawnOpts, WithSupervisor(supervisor.NewSupervisor(supervisor.WithAnyErrorDirective(supervisor.RestartDirective), supervisor.WithRetry(1000000, time.Hour))))
	case "stash":
		spawnOpts = append(spawnOpts, WithStashing())
	}
	pid, err := sys.Spawn(ctx, "target", act, spawnOpts...)
	if err != nil {
		t.Fatalf("spawn: %v", err)
	}

	if k.Noise > 0 {
		obs.HotSites = verifrt.StartNoise(verifrt.NoiseConfig{
			Seed: seed, GoschedPerMille: 20, HotSites: k.Noise,
			Candidates: vfNoiseSites("dispatch_state.go", "actor/pid.go", "mailbox.go", "ready_queue.go", "worker.go", "priority_intake.go"),
			HotPerMille: 500, MinDelay: 20 * time.Microsecond, MaxDelay: 2 * time.Millisecond, Budget: 150,
		})
	}

	accepted := make([]atomic.Bool, total)
	var wg sync.WaitGroup
	msgs := make([][]*c01Msg, k.Senders)
	idx := 0
	for s := 0; s < k.Senders; s++ {
		for q := 1; q <= k.PerSender; q++ {
			m := &c01Msg{Sender: s, Seq: q, Idx: idx}
			if (k.Disturb == "panic-resume" || k.Disturb == "panic-restart") && rng.Intn(25) == 0 {
				m.Panic = true
			}
			msgs[s] = append(msgs[s], m)
			idx++
		}
	}
	stopDisturb := make(chan struct{})
	var dwg sync.WaitGroup
	if k.Disturb == "restart" {
		dwg.Add(1)
		go func() {
			defer dwg.Done()
			for i := 0; i < 6; i++ {
				select {
				case <-stopDisturb:
					return
				default:
				}
				if err := pid.Restart(ctx); err == nil {
					obs.Restarts++
				}
				time.Sleep(time.Duration(200+rng.Intn(800)) * time.Microsecond)
			}
		}()
	}
	switch k.Disturb {
	case "actorsenders":
		var dones []chan struct{}
		for s := 0; s < k.Senders; s++ {
			sa := &c01Sender{target: pid, msgs: msgs[s], done: make(chan struct{}), accept: &accepted}
			spid, err := sys.Spawn(ctx, fmt.Sprintf("sender%d", s), sa, WithLongLived())
			if err != nil {
				t.Fatalf("spawn sender: %v", err)
			}
			dones = append(dones, sa.done)
			if err := Tell(ctx, spid, "go"); err != nil {
				t.Fatalf("tell sender: %v", err)
			}
		}
		for _, d := range dones {
			select {
			case <-d:
			case <-time.After(60 * time.Second):
				obs.Stuck = "sender actor did not finish sending within 60s"
			}
		}
	default:
		for s := 0; s < k.Senders; s++ {
			wg.Add(1)
			go func(s int) {
				defer wg.Done()
				list := msgs[s]
				for i := 0; i < len(list); {
					if k.Disturb == "batchtell" && i%5 == 0 && i+3 <= len(list) {
						batch := []any{list[i], list[i+1], list[i+2]}
						if err := BatchTell(ctx, pid, batch...); err == nil {
							accepted[list[i].Idx].Store(true)
							accepted[list[i+1].Idx].Store(true)
							accepted[list[i+2].Idx].Store(true)
						}
						i += 3
						continue
					}
					if err := Tell(ctx, pid, list[i]); err == nil {
						accepted[list[i].Idx].Store(true)
					}
					i++
				}
			}(s)
		}
		wg.Wait()
	}
	close(stopDisturb)
	dwg.Wait()

	// the actor stays up in these disturbances except restart/panic-restart,
	// where queued messages may legitimately be dropped by the restart
	obs.JudgeLoss = k.Disturb != "restart" && k.Disturb != "panic-restart"
	nacc := 0
	for i := range accepted {
		if accepted[i].Load() {
			nacc++
		}
	}
	obs.Accepted = nacc
	// quiescence: all accepted handled (or, when loss is tolerated, no progress for a while)
	pending := func() int {
		p := 0
		for i := range accepted {
			if accepted[i].Load() && led.handled[i].Load() == 0 {
				p++
			}
		}
		return p
	}
	deadline := time.Now().Add(40 * time.Second)
	lastPending, lastChange := -1, time.Now()
	for {
		p := pending()
		if p == 0 {
			break
		}
		if p != lastPending {
			lastPending, lastChange = p, time.Now()
		}
		if led.stashMode && time.Since(lastChange) > 50*time.Millisecond {
			// stashed messages are re-delivered only on UnstashAll: nudge with a message whose seq triggers it
			_ = Tell(ctx, pid, &c01Msg{Flush: true})
			time.Sleep(time.Millisecond)
		}
		if !obs.JudgeLoss && time.Since(lastChange) > 300*time.Millisecond {
			break
		}
		if time.Now().After(deadline) {
			break
		}
		time.Sleep(200 * time.Microsecond)
	}
	// settle: let an in-flight turn end
	verifrt.WaitUntil(2*time.Second, func() bool { return led.inHandler.Load() == 0 })
	if k.Noise > 0 {
		obs.Yields, obs.Delays = verifrt.StopNoise()
	}

	if p := pending(); p > 0 && pid.IsRunning() {
		// structural stuck-state predicate: messages queued, actor idle, nothing scheduled
		st := vfSchedStateName(pid)
		empty := pid.mailbox.IsEmpty()
		if obs.JudgeLoss || (!empty && st == "idle") {
			time.Sleep(100 * time.Millisecond)
			// structural part: no worker in a turn and no sender inside the
			// enqueue-and-schedule pair (a slow goroutine is not a lost message)
			inflight, _ := vfDispatchInFlight()
			for w := 0; inflight > 0 && w < 2000; w++ {
				time.Sleep(5 * time.Millisecond)
				inflight, _ = vfDispatchInFlight()
			}
			if p2 := pending(); p2 == p && inflight == 0 {
				obs.Stuck = fmt.Sprintf("%d accepted messages not handled; actor running=%v state=%s mailboxEmpty=%v parked=%d global=%d", p, pid.IsRunning(), vfSchedStateName(pid), pid.mailbox.IsEmpty(), sys.dispatcher.readyQueue.parkedCount(), sys.dispatcher.readyQueue.globalLen())
				for i := range accepted {
					if accepted[i].Load() && led.handled[i].Load() == 0 && len(obs.Lost) < 5 {
						obs.Lost = append(obs.Lost, fmt.Sprintf("idx=%d", i))
					}
				}
			}
		}
	}
	for i := range led.handled {
		if n := led.handled[i].Load(); n > 1 && len(obs.Dups) < 5 {
			obs.Dups = append(obs.Dups, fmt.Sprintf("idx=%d handled=%d", i, n))
		}
	}
	obs.Handled = int(led.total.Load())
	obs.Overlaps = led.overlaps.Load()
	if w, ok := led.overlapAt.Load().(string); ok {
		obs.OverlapWit = w
	}
	obs.TurnOverlaps = tm.overlaps.Load()
	if w, ok := turnWit.Load().(string); ok {
		obs.TurnWit = w
	}
	obs.Turns = tm.enters.Load()
	obs.OrderBad = led.orderBad.Load()
	if w, ok := led.orderWit.Load().(string); ok {
		obs.OrderWit = w
	}
	obs.Contended = k.Senders > 1 && obs.Turns > 1
	return obs
}

