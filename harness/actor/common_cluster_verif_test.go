//go:build verif

package actor

// ---------------------------------------------------------------------------
// Shared multi-node harness ("engine E5" of DESIGN.md §2.8). All identifiers are
// prefixed vfc.
//
// WHAT IT IS
//   vfcNewCluster(t, n, opts...) starts n REAL actorSystems in this process. Each
//   has real remoting on its own kernel-assigned loopback port and runs the
//   production cluster code paths (setupCluster, startCluster, singleton manager,
//   relocator, topic actor, cluster events loop, grain engine, remote handlers …).
//   The only substituted part is the registry storage: instead of the olric-backed
//   *cluster engine every system holds a *vfcHandle — its own handle (own host,
//   ports, leader view, Events() channel) onto ONE shared in-memory *vfcStore that
//   implements cluster.Cluster: one mutex => linearizable per key; NX semantics
//   for PutActorIfAbsent, ClaimScheduleFire (with TTL) and, through the committed
//   hook cluster.VerifAtomicGrainClaimer, for cluster.PutGrainIfAbsent (so the
//   engine takes the atomic claim path production takes, never the generic
//   exists-then-put fallback).
//
// HOW A NODE IS WIRED (vfcCluster.startNode) — production code except the storage swap:
//   NewActorSystem(WithRemote, WithCluster(cfg)) validates the cluster config; the
//   system is started with clustering switched off, then clustering is switched on
//   and the production steps run in production order with the fake in place:
//   sys.setupCluster() (clusterNode, bolt peer-state store, kind registration) ->
//   sys.cluster = handle -> spawnSingletonManager/spawnRelocator/spawnTopicActor ->
//   sys.startCluster() (handle.Start, grain barrier, peer port cache, events loop,
//   stale-record cleanup). Stop() runs the production shutdown (peer state is
//   pushed to the peers over real remoting, records are withdrawn, handle.Stop).
//
// HOW TO USE IT
//   c := vfcNewCluster(t, 3, vfcWithKinds(&myActor{}), vfcWithGrains(&myGrain{}))
//   defer c.Stop()
//   c.Nodes[i].Sys   *actorSystem          c.Nodes[i].Fake  *vfcHandle
//   c.Nodes[i].Host / .Port (remoting) / .PeersPort / .PeersAddr()
//   c.NodeOf(sys) -> index of the node a system belongs to (-1 if none)
//
//   Leader view (node 0 leads initially):
//     c.SetLeader(i)                 every node sees i as coordinator from now on
//     c.SetLeaderView(viewer, i)     only `viewer` sees i (split views); -1 = follow global
//     c.Leader()
//   Membership / events (Events() of every handle is fed ONLY by the harness):
//     c.StopNode(i)                  graceful production Stop of node i; the node leaves
//                                    the member list; NO NodeLeft is emitted automatically
//     c.Crash(i)                     node i vanishes from the member list and its remoting
//                                    server is shut down without any cluster cleanup
//     c.EmitNodeLeft(to, departed)   deliver one NodeLeft(departed's peers address) to node `to`
//     c.EmitNodeLeftAll(departed)    … to every running node
//     c.EmitNodeJoined(to, joined), c.AddNode() (starts one more node and announces it)
//   Fault / schedule injection — called by EVERY registry operation of every node:
//     c.SetHook(func(node int, op, key string) error)     before the operation; may sleep,
//         block on a vfcGate until released, or return an error (the operation then fails
//         with that error without touching the store)
//     c.SetAfterHook(func(node int, op, key string, err error))   after the operation returned
//         from the store, before the result is handed to the caller (hold a node between
//         "read owner" and whatever it does next, flip the leader right after Members, …)
//     op is the interface method name ("GrainExists", "PutGrainIfAbsent", "PutGrain",
//     "GetGrain", "RemoveGrain", "PutActor", "PutActorIfAbsent", "ActorExists", "GetActor",
//     "RemoveActor", "ClaimScheduleFire", "Members", "Peers", "IsLeader", scans …); key is the
//     grain identity / actor name / job id / claim key ("" for scans and membership).
//     vfcGate is a small arrive/hold/release helper for choreographed interleavings.
//   Evidence: every operation is recorded with a process-wide logical clock (vfcTick, also
//     meant for the harness' own monitors): c.Store.Ops(), c.Store.OpsFor(key),
//     c.Store.ResetLog(); c.Store.Grain(id), c.Store.Actor(name), c.Store.FireWinners().
//
// TRUSTED ASSUMPTION the fake encodes: the registry (olric DMap) is linearizable per key
// and its NX put is atomic. Record it with r.Assume in checks that rely on it.
// ---------------------------------------------------------------------------

import (
	"context"
	"errors"
	"fmt"
	"net"
	"sort"
	"sync"
	"sync/atomic"
	"syscall"
	"testing"
	"time"

	"github.com/tochemey/olric"
	"google.golang.org/protobuf/proto"

	"github.com/tochemey/goakt/v4/internal/address"
	"github.com/tochemey/goakt/v4/internal/cluster"
	"github.com/tochemey/goakt/v4/internal/internalpb"
	"github.com/tochemey/goakt/v4/log"
	"github.com/tochemey/goakt/v4/remote"
)

// ---- process-wide logical clock ------------------------------------------------

var vfcClock atomic.Int64

// vfcTick advances and returns the process-wide logical clock.
func vfcTick() int64 { return vfcClock.Add(1) }

// vfcNow reads the clock without advancing it.
func vfcNow() int64 { return vfcClock.Load() }

// ---- gates ----------------------------------------------------------------------

// vfcGate is a one-shot hold point: the held goroutine calls Hold (from a hook),
// the orchestrator waits with WaitArrived and lets it go with Release.
type vfcGate struct {
	arrived  chan struct{}
	release  chan struct{}
	arrOnce  sync.Once
	relOnce  sync.Once
	timedOut atomic.Bool
}

func vfcNewGate() *vfcGate {
	return &vfcGate{arrived: make(chan struct{}), release: make(chan struct{})}
}

// Hold signals arrival and blocks until Release or until max elapsed (watchdog;
// returns false in that case and remembers it in TimedOut).
func (g *vfcGate) Hold(max time.Duration) bool {
	g.arrOnce.Do(func() { close(g.arrived) })
	t := time.NewTimer(max)
	defer t.Stop()
	select {
	case <-g.release:
		return true
	case <-t.C:
		g.timedOut.Store(true)
		return false
	}
}

// WaitArrived blocks until some goroutine reached Hold (false on watchdog).
func (g *vfcGate) WaitArrived(max time.Duration) bool {
	t := time.NewTimer(max)
	defer t.Stop()
	select {
	case <-g.arrived:
		return true
	case <-t.C:
		return false
	}
}

// Arrived reports whether Hold was reached.
func (g *vfcGate) Arrived() bool {
	select {
	case <-g.arrived:
		return true
	default:
		return false
	}
}

func (g *vfcGate) Release()       { g.relOnce.Do(func() { close(g.release) }) }
func (g *vfcGate) TimedOut() bool { return g.timedOut.Load() }

// ---- the shared store -------------------------------------------------------------

type vfcHook func(node int, op string, key string) error
type vfcAfterHook func(node int, op string, key string, err error)

// vfcOp is one recorded registry operation. Call/Ret are logical-clock stamps taken
// around the store access (after the before-hook, before the after-hook); Lin is the
// stamp taken inside the store's critical section (the linearization point).
type vfcOp struct {
	Call, Lin, Ret int64
	Node           int
	Op, Key        string
	Out            string // short result: "ok", "true", "false", "owner=host:port", "exists", "notfound", "n=3" …
	Err            string
	Injected       bool // failed by the before-hook, store untouched
}

func (o vfcOp) String() string {
	inj := ""
	if o.Injected {
		inj = " INJECTED"
	}
	return fmt.Sprintf("[%d..%d..%d] n%d %s(%s) -> %s %s%s", o.Call, o.Lin, o.Ret, o.Node, o.Op, o.Key, o.Out, o.Err, inj)
}

type vfcMember struct {
	Node         int
	Host         string
	PeersPort    int
	DiscoPort    int
	RemotingPort int
	Roles        []string
	CreatedAt    int64
	Present      bool
}

type vfcFire struct {
	Node   int
	Expiry time.Time
}

type vfcStore struct {
	mu      sync.Mutex // the registry's single lock: linearizable per key (and across keys)
	actors  map[string]*internalpb.Actor
	grains  map[string]*internalpb.Grain
	jobs    map[string][]byte
	fires   map[string]vfcFire
	winners map[string][]int // claim key -> nodes that won it (evidence; >1 only after TTL expiry)
	rr      map[string]int
	members []*vfcMember
	leader  int
	views   map[int]int // viewer -> leader override

	// FireTTLDisabled makes schedule-fire claims never expire (production: NX+EX ttl).
	FireTTLDisabled atomic.Bool

	hook  atomic.Pointer[vfcHook]
	after atomic.Pointer[vfcAfterHook]

	logMu sync.Mutex
	log   []vfcOp
	nops  atomic.Int64
	inFl  atomic.Int64
}

func vfcNewStore() *vfcStore {
	return &vfcStore{
		actors:  map[string]*internalpb.Actor{},
		grains:  map[string]*internalpb.Grain{},
		jobs:    map[string][]byte{},
		fires:   map[string]vfcFire{},
		winners: map[string][]int{},
		rr:      map[string]int{},
		views:   map[int]int{},
	}
}

func (s *vfcStore) record(o vfcOp) {
	s.nops.Add(1)
	s.logMu.Lock()
	if len(s.log) > 400000 {
		s.log = append([]vfcOp(nil), s.log[200000:]...)
	}
	s.log = append(s.log, o)
	s.logMu.Unlock()
}

// Ops returns a copy of the operation log (in completion order).
func (s *vfcStore) Ops() []vfcOp {
	s.logMu.Lock()
	defer s.logMu.Unlock()
	return append([]vfcOp(nil), s.log...)
}

// OpsFor returns the recorded operations on one key, in linearization order.
func (s *vfcStore) OpsFor(key string) []vfcOp {
	s.logMu.Lock()
	var out []vfcOp
	for _, o := range s.log {
		if o.Key == key {
			out = append(out, o)
		}
	}
	s.logMu.Unlock()
	sort.SliceStable(out, func(i, j int) bool {
		a, b := out[i].Lin, out[j].Lin
		if a == 0 {
			a = out[i].Call
		}
		if b == 0 {
			b = out[j].Call
		}
		return a < b
	})
	return out
}

// OpStrings renders OpsFor(key) for a violation detail.
func (s *vfcStore) OpStrings(key string) []string {
	ops := s.OpsFor(key)
	out := make([]string, len(ops))
	for i, o := range ops {
		out[i] = o.String()
	}
	return out
}

func (s *vfcStore) ResetLog() {
	s.logMu.Lock()
	s.log = nil
	s.logMu.Unlock()
}

// OpCount is the number of operations performed so far; InFlight the number currently
// between their before-hook and their return.
func (s *vfcStore) OpCount() int64  { return s.nops.Load() }
func (s *vfcStore) InFlight() int64 { return s.inFl.Load() }

// Grain / Actor read the registry directly (no hook, not recorded).
func (s *vfcStore) Grain(id string) *internalpb.Grain {
	s.mu.Lock()
	defer s.mu.Unlock()
	if g, ok := s.grains[id]; ok {
		return proto.Clone(g).(*internalpb.Grain)
	}
	return nil
}

func (s *vfcStore) Actor(name string) *internalpb.Actor {
	s.mu.Lock()
	defer s.mu.Unlock()
	if a, ok := s.actors[name]; ok {
		return proto.Clone(a).(*internalpb.Actor)
	}
	return nil
}

// FireWinners returns claim key -> winning nodes.
func (s *vfcStore) FireWinners() map[string][]int {
	s.mu.Lock()
	defer s.mu.Unlock()
	out := make(map[string][]int, len(s.winners))
	for k, v := range s.winners {
		out[k] = append([]int(nil), v...)
	}
	return out
}

func (s *vfcStore) leaderFor(viewer int) int {
	if v, ok := s.views[viewer]; ok && v >= 0 {
		return v
	}
	return s.leader
}

func (s *vfcStore) peersLocked(viewer int, includeSelf bool) []*cluster.Peer {
	lead := s.leaderFor(viewer)
	var out []*cluster.Peer
	for _, m := range s.members {
		if !m.Present {
			continue
		}
		if !includeSelf && m.Node == viewer {
			continue
		}
		out = append(out, &cluster.Peer{
			Host:          m.Host,
			DiscoveryPort: m.DiscoPort,
			PeersPort:     m.PeersPort,
			Coordinator:   m.Node == lead,
			RemotingPort:  m.RemotingPort,
			Roles:         append([]string(nil), m.Roles...),
			CreatedAt:     m.CreatedAt,
		})
	}
	return out
}

// ---- per-node handle (implements cluster.Cluster) ------------------------------------

type vfcHandle struct {
	store   *vfcStore
	node    int
	running atomic.Bool

	evMu     sync.Mutex
	events   chan *cluster.Event
	evClosed bool
}

var (
	_ cluster.Cluster                 = (*vfcHandle)(nil)
	_ cluster.VerifAtomicGrainClaimer = (*vfcHandle)(nil)
)

// do runs one registry operation: before-hook, store access under the single mutex,
// record, after-hook.
func (h *vfcHandle) do(op, key string, fn func() (string, error)) error {
	s := h.store
	s.inFl.Add(1)
	defer s.inFl.Add(-1)
	if hp := s.hook.Load(); hp != nil {
		if err := (*hp)(h.node, op, key); err != nil {
			t := vfcTick()
			s.record(vfcOp{Call: t, Ret: t, Node: h.node, Op: op, Key: key, Out: "fail", Err: err.Error(), Injected: true})
			if ap := s.after.Load(); ap != nil {
				(*ap)(h.node, op, key, err)
			}
			return err
		}
	}
	o := vfcOp{Node: h.node, Op: op, Key: key, Call: vfcTick()}
	var err error
	if !h.running.Load() {
		err = cluster.ErrEngineNotRunning
		o.Out = "notrunning"
	} else {
		s.mu.Lock()
		o.Lin = vfcTick()
		o.Out, err = fn()
		s.mu.Unlock()
	}
	o.Ret = vfcTick()
	if err != nil {
		o.Err = err.Error()
	}
	s.record(o)
	if ap := s.after.Load(); ap != nil {
		(*ap)(h.node, op, key, err)
	}
	return err
}

func (h *vfcHandle) Start(context.Context) error {
	h.running.Store(true)
	return nil
}

func (h *vfcHandle) Stop(context.Context) error {
	if !h.running.CompareAndSwap(true, false) {
		return nil
	}
	s := h.store
	s.mu.Lock()
	for _, m := range s.members {
		if m.Node == h.node {
			m.Present = false
		}
	}
	s.mu.Unlock()
	h.evMu.Lock()
	if !h.evClosed {
		h.evClosed = true
		close(h.events)
	}
	h.evMu.Unlock()
	return nil
}

func vfcActorKey(a *internalpb.Actor) (string, error) {
	addr, err := address.Parse(a.GetAddress())
	if err != nil {
		return "", err
	}
	return addr.Name(), nil
}

func vfcOwnerOf(g *internalpb.Grain) string {
	return fmt.Sprintf("owner=%s:%d", g.GetHost(), g.GetPort())
}

func (h *vfcHandle) PutActor(_ context.Context, actor *internalpb.Actor) error {
	key, err := vfcActorKey(actor)
	if err != nil {
		return err
	}
	return h.do("PutActor", key, func() (string, error) {
		h.store.actors[key] = proto.Clone(actor).(*internalpb.Actor)
		return "ok addr=" + actor.GetAddress(), nil
	})
}

func (h *vfcHandle) PutActorIfAbsent(_ context.Context, actor *internalpb.Actor) error {
	key, err := vfcActorKey(actor)
	if err != nil {
		return err
	}
	return h.do("PutActorIfAbsent", key, func() (string, error) {
		if _, ok := h.store.actors[key]; ok {
			return "exists", cluster.ErrActorAlreadyExists
		}
		h.store.actors[key] = proto.Clone(actor).(*internalpb.Actor)
		return "ok addr=" + actor.GetAddress(), nil
	})
}

func (h *vfcHandle) GetActor(_ context.Context, actorName string) (*internalpb.Actor, error) {
	var out *internalpb.Actor
	err := h.do("GetActor", actorName, func() (string, error) {
		a, ok := h.store.actors[actorName]
		if !ok {
			return "notfound", cluster.ErrActorNotFound
		}
		out = proto.Clone(a).(*internalpb.Actor)
		return "addr=" + a.GetAddress(), nil
	})
	return out, err
}

func (h *vfcHandle) RemoveActor(_ context.Context, actorName string) error {
	return h.do("RemoveActor", actorName, func() (string, error) {
		_, ok := h.store.actors[actorName]
		delete(h.store.actors, actorName)
		if ok {
			return "removed", nil
		}
		return "absent", nil
	})
}

func (h *vfcHandle) ActorExists(_ context.Context, actorName string) (bool, error) {
	var ex bool
	err := h.do("ActorExists", actorName, func() (string, error) {
		_, ex = h.store.actors[actorName]
		return fmt.Sprint(ex), nil
	})
	return ex, err
}

func (h *vfcHandle) scanActors(op string, keep func(*internalpb.Actor) bool) ([]*internalpb.Actor, error) {
	var out []*internalpb.Actor
	err := h.do(op, "", func() (string, error) {
		names := make([]string, 0, len(h.store.actors))
		for k := range h.store.actors {
			names = append(names, k)
		}
		sort.Strings(names)
		for _, k := range names {
			a := h.store.actors[k]
			if keep == nil || keep(a) {
				out = append(out, proto.Clone(a).(*internalpb.Actor))
			}
		}
		return fmt.Sprintf("n=%d", len(out)), nil
	})
	return out, err
}

func (h *vfcHandle) Actors(_ context.Context, _ time.Duration) ([]*internalpb.Actor, error) {
	return h.scanActors("Actors", nil)
}

func (h *vfcHandle) ActorsByHost(_ context.Context, host string, port int, _ time.Duration) ([]*internalpb.Actor, error) {
	target := address.FormatHostPort(host, port)
	return h.scanActors("ActorsByHost", func(a *internalpb.Actor) bool {
		hp, ok := address.HostPortOf(a.GetAddress())
		return ok && hp == target
	})
}

func (h *vfcHandle) CountActorsByHost(_ context.Context, _ time.Duration) (map[string]int, error) {
	counts := map[string]int{}
	err := h.do("CountActorsByHost", "", func() (string, error) {
		for _, a := range h.store.actors {
			if hp, ok := address.HostPortOf(a.GetAddress()); ok {
				counts[hp]++
			}
		}
		return fmt.Sprintf("hosts=%d", len(counts)), nil
	})
	if err != nil {
		return nil, err
	}
	return counts, nil
}

func vfcGrainKey(g *internalpb.Grain) (string, error) {
	id := g.GetGrainId()
	if id == nil {
		return "", fmt.Errorf("grain id is not set")
	}
	if id.GetValue() == "" {
		return "", fmt.Errorf("grain id value is empty")
	}
	return id.GetValue(), nil
}

func (h *vfcHandle) PutGrain(_ context.Context, grain *internalpb.Grain) error {
	key, err := vfcGrainKey(grain)
	if err != nil {
		return err
	}
	return h.do("PutGrain", key, func() (string, error) {
		h.store.grains[key] = proto.Clone(grain).(*internalpb.Grain)
		return "ok " + vfcOwnerOf(grain), nil
	})
}

// VerifPutGrainIfAbsent is the atomic claim (production: olric Put with NX).
func (h *vfcHandle) VerifPutGrainIfAbsent(_ context.Context, grain *internalpb.Grain) error {
	key, err := vfcGrainKey(grain)
	if err != nil {
		return err
	}
	return h.do("PutGrainIfAbsent", key, func() (string, error) {
		if g, ok := h.store.grains[key]; ok {
			return "exists " + vfcOwnerOf(g), cluster.ErrGrainAlreadyExists
		}
		h.store.grains[key] = proto.Clone(grain).(*internalpb.Grain)
		return "claimed " + vfcOwnerOf(grain), nil
	})
}

func (h *vfcHandle) GetGrain(_ context.Context, identity string) (*internalpb.Grain, error) {
	var out *internalpb.Grain
	err := h.do("GetGrain", identity, func() (string, error) {
		g, ok := h.store.grains[identity]
		if !ok {
			return "notfound", cluster.ErrGrainNotFound
		}
		out = proto.Clone(g).(*internalpb.Grain)
		return vfcOwnerOf(g), nil
	})
	return out, err
}

func (h *vfcHandle) RemoveGrain(_ context.Context, identity string) error {
	return h.do("RemoveGrain", identity, func() (string, error) {
		g, ok := h.store.grains[identity]
		delete(h.store.grains, identity)
		if ok {
			return "removed " + vfcOwnerOf(g), nil
		}
		return "absent", nil
	})
}

func (h *vfcHandle) GrainExists(_ context.Context, identity string) (bool, error) {
	var ex bool
	err := h.do("GrainExists", identity, func() (string, error) {
		_, ex = h.store.grains[identity]
		return fmt.Sprint(ex), nil
	})
	return ex, err
}

func (h *vfcHandle) scanGrains(op string, keep func(*internalpb.Grain) bool) ([]*internalpb.Grain, error) {
	var out []*internalpb.Grain
	err := h.do(op, "", func() (string, error) {
		ids := make([]string, 0, len(h.store.grains))
		for k := range h.store.grains {
			ids = append(ids, k)
		}
		sort.Strings(ids)
		for _, k := range ids {
			g := h.store.grains[k]
			if keep == nil || keep(g) {
				out = append(out, proto.Clone(g).(*internalpb.Grain))
			}
		}
		return fmt.Sprintf("n=%d", len(out)), nil
	})
	return out, err
}

func (h *vfcHandle) Grains(_ context.Context, _ time.Duration) ([]*internalpb.Grain, error) {
	return h.scanGrains("Grains", nil)
}

func (h *vfcHandle) GrainsByHost(_ context.Context, host string, port int, _ time.Duration) ([]*internalpb.Grain, error) {
	p := int32(port) //nolint
	return h.scanGrains("GrainsByHost", func(g *internalpb.Grain) bool {
		return g.GetHost() == host && g.GetPort() == p
	})
}

func (h *vfcHandle) Events() <-chan *cluster.Event { return h.events }

func (h *vfcHandle) Peers(_ context.Context) ([]*cluster.Peer, error) {
	var out []*cluster.Peer
	err := h.do("Peers", "", func() (string, error) {
		out = h.store.peersLocked(h.node, false)
		return fmt.Sprintf("n=%d", len(out)), nil
	})
	return out, err
}

func (h *vfcHandle) Members(_ context.Context) ([]*cluster.Peer, error) {
	var out []*cluster.Peer
	err := h.do("Members", "", func() (string, error) {
		out = h.store.peersLocked(h.node, true)
		return fmt.Sprintf("n=%d leader=n%d", len(out), h.store.leaderFor(h.node)), nil
	})
	return out, err
}

func (h *vfcHandle) IsLeader(_ context.Context) bool {
	var lead bool
	err := h.do("IsLeader", "", func() (string, error) {
		lead = h.store.leaderFor(h.node) == h.node
		return fmt.Sprint(lead), nil
	})
	return err == nil && lead
}

func (h *vfcHandle) GetPartition(string) uint64    { return 0 }
func (h *vfcHandle) IsRunning() bool               { return h.running.Load() }
func (h *vfcHandle) LastRebalanceEvent() time.Time { return time.Time{} }

func (h *vfcHandle) ClaimScheduleFire(_ context.Context, key string, ttl time.Duration) error {
	if key == "" {
		return errors.New("schedule fire key is empty")
	}
	return h.do("ClaimScheduleFire", key, func() (string, error) {
		now := time.Now()
		if f, ok := h.store.fires[key]; ok && (h.store.FireTTLDisabled.Load() || now.Before(f.Expiry)) {
			return fmt.Sprintf("claimed-by=n%d", f.Node), cluster.ErrScheduleFireClaimed
		}
		h.store.fires[key] = vfcFire{Node: h.node, Expiry: now.Add(ttl)}
		h.store.winners[key] = append(h.store.winners[key], h.node)
		return "won", nil
	})
}

func (h *vfcHandle) PutJobKey(_ context.Context, jobID string, metadata []byte) error {
	return h.do("PutJobKey", jobID, func() (string, error) {
		h.store.jobs[jobID] = append([]byte(nil), metadata...)
		return "ok", nil
	})
}

func (h *vfcHandle) DeleteJobKey(_ context.Context, jobID string) error {
	return h.do("DeleteJobKey", jobID, func() (string, error) {
		delete(h.store.jobs, jobID)
		return "ok", nil
	})
}

func (h *vfcHandle) JobKey(_ context.Context, jobID string) ([]byte, error) {
	var out []byte
	err := h.do("JobKey", jobID, func() (string, error) {
		v, ok := h.store.jobs[jobID]
		if !ok {
			return "notfound", olric.ErrKeyNotFound
		}
		out = append([]byte(nil), v...)
		return "ok", nil
	})
	return out, err
}

func (h *vfcHandle) NextRoundRobinValue(_ context.Context, key string) (int, error) {
	switch key {
	case cluster.ActorsRoundRobinKey, cluster.GrainsRoundRobinKey:
	default:
		return -1, fmt.Errorf("invalid round-robin key: %s", key)
	}
	next := -1
	err := h.do("NextRoundRobinValue", key, func() (string, error) {
		h.store.rr[key]++
		next = h.store.rr[key]
		return fmt.Sprint(next), nil
	})
	if err != nil {
		return -1, err
	}
	return next, nil
}

// emit feeds one event into this node's Events() channel (dropped when the node stopped
// or its buffer is full; returns whether it was queued).
func (h *vfcHandle) emit(ev *cluster.Event) bool {
	h.evMu.Lock()
	defer h.evMu.Unlock()
	if h.evClosed {
		return false
	}
	select {
	case h.events <- ev:
		return true
	default:
		return false
	}
}

// ---- discovery stub (never used: the engine built by setupCluster is never started) ----

type vfcDiscovery struct{}

func (vfcDiscovery) ID() string                       { return "vfc" }
func (vfcDiscovery) Initialize() error                { return nil }
func (vfcDiscovery) Register() error                  { return nil }
func (vfcDiscovery) Deregister() error                { return nil }
func (vfcDiscovery) DiscoverPeers() ([]string, error) { return nil, nil }
func (vfcDiscovery) Close() error                     { return nil }

// vfcNopActor keeps ClusterConfig.Validate satisfied when the caller registers nothing.
type vfcNopActor struct{}

func (*vfcNopActor) PreStart(*Context) error { return nil }
func (*vfcNopActor) Receive(*ReceiveContext) {}
func (*vfcNopActor) PostStop(*Context) error { return nil }

// ---- the cluster of nodes -----------------------------------------------------------

type vfcNode struct {
	Idx       int
	Sys       *actorSystem
	Fake      *vfcHandle
	Host      string
	Port      int // remoting port
	PeersPort int
	stopped   atomic.Bool
}

func (n *vfcNode) PeersAddr() string { return net.JoinHostPort(n.Host, fmt.Sprint(n.PeersPort)) }
func (n *vfcNode) Stopped() bool     { return n.stopped.Load() }

type vfcConfig struct {
	kinds       []Actor
	grains      []Grain
	roles       map[int][]string
	sysOpts     []Option
	remoteOpts  []remote.Option
	clusterTune func(node int, cfg *ClusterConfig)
	quietJoin   bool
}

type vfcOption func(*vfcConfig)

// vfcWithKinds registers actor kinds on every node (needed for RemoteSpawn, singletons, relocation).
func vfcWithKinds(kinds ...Actor) vfcOption {
	return func(c *vfcConfig) { c.kinds = append(c.kinds, kinds...) }
}

// vfcWithGrains registers grain kinds on every node (needed for remote activation).
func vfcWithGrains(grains ...Grain) vfcOption {
	return func(c *vfcConfig) { c.grains = append(c.grains, grains...) }
}

// vfcWithRoles gives node idx the listed roles.
func vfcWithRoles(node int, roles ...string) vfcOption {
	return func(c *vfcConfig) {
		if c.roles == nil {
			c.roles = map[int][]string{}
		}
		c.roles[node] = append(c.roles[node], roles...)
	}
}

// vfcWithSystemOptions appends actor-system options to every node.
func vfcWithSystemOptions(opts ...Option) vfcOption {
	return func(c *vfcConfig) { c.sysOpts = append(c.sysOpts, opts...) }
}

// vfcWithRemoteOptions appends remote.Config options to every node.
func vfcWithRemoteOptions(opts ...remote.Option) vfcOption {
	return func(c *vfcConfig) { c.remoteOpts = append(c.remoteOpts, opts...) }
}

// vfcWithClusterTune lets the caller adjust a node's ClusterConfig before the system is built.
func vfcWithClusterTune(fn func(node int, cfg *ClusterConfig)) vfcOption {
	return func(c *vfcConfig) { c.clusterTune = fn }
}

// vfcWithQuietJoin suppresses the NodeJoined events normally delivered to the nodes that
// are already running when another node starts.
func vfcWithQuietJoin() vfcOption { return func(c *vfcConfig) { c.quietJoin = true } }

type vfcCluster struct {
	T     testing.TB
	Store *vfcStore
	Nodes []*vfcNode
	cfg   *vfcConfig
	mu    sync.Mutex
}

var vfcPortCounter atomic.Int64

// vfcNewCluster starts n nodes on one shared fake registry. Node 0 is the initial leader
// and the oldest member.
func vfcNewCluster(t testing.TB, n int, opts ...vfcOption) *vfcCluster {
	cfg := &vfcConfig{}
	for _, o := range opts {
		o(cfg)
	}
	c := &vfcCluster{T: t, Store: vfcNewStore(), cfg: cfg}
	for i := 0; i < n; i++ {
		c.startNode()
	}
	return c
}

// AddNode starts one more node and returns it.
func (c *vfcCluster) AddNode() *vfcNode { return c.startNode() }

func vfcListenReusePort() (*net.TCPListener, error) {
	lc := net.ListenConfig{Control: func(_, _ string, rc syscall.RawConn) error {
		var serr error
		if err := rc.Control(func(fd uintptr) {
			serr = syscall.SetsockoptInt(int(fd), syscall.SOL_SOCKET, 0x0F /* SO_REUSEPORT */, 1)
		}); err != nil {
			return err
		}
		return serr
	}}
	l, err := lc.Listen(context.Background(), "tcp4", "127.0.0.1:0")
	if err != nil {
		return nil, err
	}
	return l.(*net.TCPListener), nil
}

func (c *vfcCluster) startNode() *vfcNode {
	t := c.T
	c.mu.Lock()
	idx := len(c.Nodes)
	c.mu.Unlock()
	const host = "127.0.0.1"
	var (
		sys  *actorSystem
		port int
	)
	began := time.Now()
	for attempt := 0; ; attempt++ {
		// reserve a kernel-assigned port with SO_REUSEPORT (the option the repository's
		// own listeners use) so nobody can take it before the system binds it
		hold, err := vfcListenReusePort()
		if err != nil {
			t.Fatalf("vfc: reserve port: %v", err)
		}
		port = hold.Addr().(*net.TCPAddr).Port
		// peers/discovery ports are identity labels only (nothing listens on them)
		lbl := int(vfcPortCounter.Add(2))
		ccfg := NewClusterConfig().
			WithDiscovery(vfcDiscovery{}).
			WithDiscoveryPort(30000 + lbl).
			WithPeersPort(30001 + lbl).
			WithKinds(append([]Actor{&vfcNopActor{}}, c.cfg.kinds...)...)
		if len(c.cfg.grains) > 0 {
			ccfg = ccfg.WithGrains(c.cfg.grains...)
		}
		if r := c.cfg.roles[idx]; len(r) > 0 {
			ccfg = ccfg.WithRoles(r...)
		}
		if c.cfg.clusterTune != nil {
			c.cfg.clusterTune(idx, ccfg)
		}
		all := append([]Option{
			WithLogger(log.DiscardLogger),
			WithShutdownTimeout(60 * time.Second),
			WithRemote(remote.NewConfig(host, port, c.cfg.remoteOpts...)),
			WithCluster(ccfg),
		}, c.cfg.sysOpts...)
		name := "vfcsys" // one system name cluster-wide, as in production
		as, err := NewActorSystem(name, all...)
		if err != nil {
			_ = hold.Close()
			t.Fatalf("vfc: NewActorSystem: %v", err)
		}
		sys = as.(*actorSystem)
		// phase 1: plain (remoting only) start; the cluster part follows below with the fake in place
		sys.clusterEnabled.Store(false)
		err = sys.Start(context.Background())
		_ = hold.Close()
		if err != nil {
			if attempt < 5 {
				continue
			}
			t.Fatalf("vfc: system Start: %v", err)
		}
		break
	}

	phase1 := time.Since(began)
	ctx := context.Background()
	// phase 2: the production cluster steps, in production order, on the fake registry
	sys.clusterEnabled.Store(true)
	if err := sys.setupCluster(); err != nil {
		t.Fatalf("vfc: setupCluster: %v", err)
	}
	node := sys.clusterNode
	h := &vfcHandle{store: c.Store, node: idx, events: make(chan *cluster.Event, 256)}
	sys.locker.Lock()
	sys.cluster = h // the storage swap: the olric engine built by setupCluster is never started
	sys.locker.Unlock()
	sys.clusterEnabled.Store(true) // publish the plain-field writes above to readers that load this flag

	c.Store.mu.Lock()
	c.Store.members = append(c.Store.members, &vfcMember{
		Node: idx, Host: node.Host, PeersPort: node.PeersPort, DiscoPort: node.DiscoveryPort,
		RemotingPort: node.RemotingPort, Roles: append([]string(nil), node.Roles...),
		CreatedAt: time.Now().UnixNano() + int64(idx), Present: true,
	})
	c.Store.mu.Unlock()

	for _, step := range []struct {
		name string
		fn   func(context.Context) error
	}{
		{"spawnSingletonManager", sys.spawnSingletonManager},
		{"spawnRelocator", sys.spawnRelocator},
		{"spawnTopicActor", sys.spawnTopicActor},
		{"startCluster", sys.startCluster},
	} {
		if err := step.fn(ctx); err != nil {
			t.Fatalf("vfc: %s: %v", step.name, err)
		}
	}
	if !sys.InCluster() {
		t.Fatalf("vfc: node %d is not in cluster mode after wiring", idx)
	}
	t.Logf("vfc: node %d up on %s:%d (plain start %s, cluster wiring %s)", idx, host, port, phase1.Round(time.Millisecond), (time.Since(began) - phase1).Round(time.Millisecond))

	n := &vfcNode{Idx: idx, Sys: sys, Fake: h, Host: node.Host, Port: node.RemotingPort, PeersPort: node.PeersPort}
	c.mu.Lock()
	prev := append([]*vfcNode(nil), c.Nodes...)
	c.Nodes = append(c.Nodes, n)
	c.mu.Unlock()
	if !c.cfg.quietJoin {
		for _, p := range prev {
			if !p.Stopped() {
				p.Fake.emit(&cluster.Event{Type: cluster.NodeJoined, Payload: &cluster.NodeJoinedEvent{Address: n.PeersAddr(), Timestamp: time.Now().UTC()}})
			}
		}
	}
	return n
}

// NodeOf maps a system to its node index (-1 when unknown).
func (c *vfcCluster) NodeOf(sys ActorSystem) int {
	c.mu.Lock()
	defer c.mu.Unlock()
	for _, n := range c.Nodes {
		if ActorSystem(n.Sys) == sys {
			return n.Idx
		}
	}
	return -1
}

// NodeByHostPort maps a remoting endpoint to its node index (-1 when unknown).
func (c *vfcCluster) NodeByHostPort(host string, port int) int {
	c.mu.Lock()
	defer c.mu.Unlock()
	for _, n := range c.Nodes {
		if n.Host == host && n.Port == port {
			return n.Idx
		}
	}
	return -1
}

func (c *vfcCluster) SetHook(h vfcHook) {
	if h == nil {
		c.Store.hook.Store(nil)
		return
	}
	c.Store.hook.Store(&h)
}

func (c *vfcCluster) SetAfterHook(h vfcAfterHook) {
	if h == nil {
		c.Store.after.Store(nil)
		return
	}
	c.Store.after.Store(&h)
}

// SetLeader makes node i the coordinator in every node's view (per-viewer overrides are dropped).
func (c *vfcCluster) SetLeader(i int) {
	c.Store.mu.Lock()
	c.Store.leader = i
	c.Store.views = map[int]int{}
	c.Store.mu.Unlock()
	vfcTick()
}

// SetLeaderView makes `viewer` (only) see `leader` as coordinator; leader -1 removes the override.
func (c *vfcCluster) SetLeaderView(viewer, leader int) {
	c.Store.mu.Lock()
	if leader < 0 {
		delete(c.Store.views, viewer)
	} else {
		c.Store.views[viewer] = leader
	}
	c.Store.mu.Unlock()
	vfcTick()
}

func (c *vfcCluster) Leader() int {
	c.Store.mu.Lock()
	defer c.Store.mu.Unlock()
	return c.Store.leader
}

// EmitNodeLeft delivers one NodeLeft(departed) event to node `to`.
func (c *vfcCluster) EmitNodeLeft(to, departed int) bool {
	return c.Nodes[to].Fake.emit(&cluster.Event{Type: cluster.NodeLeft, Payload: &cluster.NodeLeftEvent{Address: c.Nodes[departed].PeersAddr(), Timestamp: time.Now().UTC()}})
}

// EmitNodeLeftAll delivers NodeLeft(departed) to every running node.
func (c *vfcCluster) EmitNodeLeftAll(departed int) {
	for _, n := range c.Nodes {
		if n.Idx != departed && !n.Stopped() {
			c.EmitNodeLeft(n.Idx, departed)
		}
	}
}

// EmitNodeJoined delivers one NodeJoined(joined) event to node `to`.
func (c *vfcCluster) EmitNodeJoined(to, joined int) bool {
	return c.Nodes[to].Fake.emit(&cluster.Event{Type: cluster.NodeJoined, Payload: &cluster.NodeJoinedEvent{Address: c.Nodes[joined].PeersAddr(), Timestamp: time.Now().UTC()}})
}

// StopNode stops node i gracefully (production shutdown path). The node leaves the member
// list; no NodeLeft is emitted.
func (c *vfcCluster) StopNode(i int) error {
	n := c.Nodes[i]
	if !n.stopped.CompareAndSwap(false, true) {
		return nil
	}
	ctx, cancel := context.WithTimeout(context.Background(), 90*time.Second)
	defer cancel()
	return n.Sys.Stop(ctx)
}

// Crash makes node i disappear abruptly: it leaves the member list, its registry handle
// stops answering and its remoting server is shut down; none of the cluster cleanup of a
// graceful stop runs (its records stay in the registry, no peer state is pushed).
func (c *vfcCluster) Crash(i int) {
	n := c.Nodes[i]
	if !n.stopped.CompareAndSwap(false, true) {
		return
	}
	_ = n.Fake.Stop(context.Background())
	n.Sys.locker.Lock()
	srv := n.Sys.remoteServer
	n.Sys.locker.Unlock()
	if srv != nil {
		_ = srv.Shutdown(5 * time.Second)
	}
	// best-effort release of the remaining local resources, without cluster cleanup
	n.Sys.clusterEnabled.Store(false)
	go func() {
		ctx, cancel := context.WithTimeout(context.Background(), 90*time.Second)
		defer cancel()
		_ = n.Sys.Stop(ctx)
	}()
}

// Stop stops every node that is still running (hooks are removed first).
func (c *vfcCluster) Stop() {
	c.SetHook(nil)
	c.SetAfterHook(nil)
	c.mu.Lock()
	nodes := append([]*vfcNode(nil), c.Nodes...)
	c.mu.Unlock()
	var wg sync.WaitGroup
	for _, n := range nodes {
		if n.Stopped() {
			continue
		}
		wg.Add(1)
		go func(n *vfcNode) {
			defer wg.Done()
			_ = c.StopNode(n.Idx)
		}(n)
	}
	wg.Wait()
}
