//go:build verif

package actor

import (
	"context"
	"fmt"
	"math/rand"
	"runtime"
	"strings"
	"sync"
	"sync/atomic"
	"testing"
	"time"

	"github.com/tochemey/goakt/v4/internal/verifrt"
)

// C11 workload: rounds of 2-8 goroutines spawning the same name (Spawn,
// SpawnNamedFromFunc, SpawnChild under one parent) with per-call actor instances
// that maintain a per-name live gauge in PreStart/PostStop, some callers with
// cancelled contexts, optionally a Kill of the name racing the spawns or
// preceding one of them, and a settle audit (gauge vs registration vs NumActors).

type c11Round struct {
	id      int
	kind    string
	name    string
	seq     *atomic.Int64
	live    atomic.Int64
	maxLive atomic.Int64
	pre     atomic.Int64
	post    atomic.Int64
	mu      sync.Mutex
	notes   []string
	dwell   int
}

func (r *c11Round) started(inst int) {
	s := r.seq.Add(1)
	r.pre.Add(1)
	n := r.live.Add(1)
	for {
		m := r.maxLive.Load()
		if n <= m || r.maxLive.CompareAndSwap(m, n) {
			break
		}
	}
	r.mu.Lock()
	r.notes = append(r.notes, fmt.Sprintf("#%d PreStart of instance %d (live=%d)", s, inst, n))
	r.mu.Unlock()
	if inst > 8 {
		inst = 8
	}
	switch r.dwell {
	case 1:
		runtime.Gosched()
	case 2:
		time.Sleep(time.Duration(50+inst*40) * time.Microsecond)
	case 3:
		time.Sleep(time.Duration(300+inst*100) * time.Microsecond)
	}
}

func (r *c11Round) stopped(inst int) {
	s := r.seq.Add(1)
	r.post.Add(1)
	n := r.live.Add(-1)
	r.mu.Lock()
	r.notes = append(r.notes, fmt.Sprintf("#%d PostStop of instance %d (live=%d)", s, inst, n))
	r.mu.Unlock()
}

type c11Inst struct {
	round *c11Round
	id    int
	abort *c11Abort // non-nil: PreStart honours the spawn context and only ever ends through it
}

// c11Abort is the winner of an aborted flight: its PreStart announces itself and
// then waits for the caller's context, like an actor that connects with the request context.
type c11Abort struct {
	once    sync.Once
	entered chan struct{}
	calls   atomic.Int64
}

func (b *c11Abort) wait(ctx context.Context) error {
	b.calls.Add(1)
	b.once.Do(func() { close(b.entered) })
	<-ctx.Done()
	return ctx.Err()
}

func (a *c11Inst) PreStart(ctx *Context) error {
	if a.abort != nil {
		return a.abort.wait(ctx.Context())
	}
	a.round.started(a.id)
	return nil
}
func (a *c11Inst) PostStop(*Context) error { a.round.stopped(a.id); return nil }
func (a *c11Inst) Receive(*ReceiveContext) {}

type c11Parent struct{}

func (c11Parent) PreStart(*Context) error { return nil }
func (c11Parent) PostStop(*Context) error { return nil }
func (c11Parent) Receive(*ReceiveContext) {}

type c11Call struct {
	Caller  int
	API     string // spawn | func | child
	Name    string
	Ctx     string // live | cancelled | soon-cancelled
	Start   int64
	End     int64
	Err     string
	pid     *PID
	Running bool // IsRunning observed by the caller right after the call returned
	Panic   string
}

func (c c11Call) String() string {
	p := "nil"
	if c.pid != nil {
		p = fmt.Sprintf("%p", c.pid)
	}
	return fmt.Sprintf("caller%d %s(%s ctx=%s)[#%d..#%d] pid=%s running=%v err=%q", c.Caller, c.API, c.Name, c.Ctx, c.Start, c.End, p, c.Running, c.Err)
}

type c11Knobs struct {
	Kind    string // spawn | func | mixed | child | ctx | kill-race | spawn-after-kill | two-names | abort-spawn | abort-func | abort-child
	Callers int
	Dwell   int
	Procs   int
	Noise   int
}

func (k c11Knobs) String() string {
	return fmt.Sprintf("kind=%s callers=%d dwell=%d procs=%d noise=%d", k.Kind, k.Callers, k.Dwell, k.Procs, k.Noise)
}

var c11Kinds = []string{"spawn", "func", "mixed", "child", "ctx", "kill-race", "spawn-after-kill", "two-names", "abort-spawn", "abort-func", "abort-child"}

func c11IsAbort(kind string) bool { return len(kind) > 6 && kind[:6] == "abort-" }

func c11GenKnobs(rng *rand.Rand, i int) c11Knobs {
	k := c11Knobs{
		Kind:    c11Kinds[i%len(c11Kinds)],
		Callers: 2 + rng.Intn(7),
		Dwell:   rng.Intn(4),
		Procs:   []int{2, 4, 8, 16}[rng.Intn(4)],
		Noise:   rng.Intn(3),
	}
	if c11IsAbort(k.Kind) {
		// the aborted winner plus at least two callers with healthy contexts; their own
		// PreStart dwells so that a retry outside the flight would overlap the others
		if k.Callers < 3 {
			k.Callers = 3 + rng.Intn(4)
		}
		if k.Dwell < 2 {
			k.Dwell = 2 + rng.Intn(2)
		}
	}
	return k
}

type c11Finding struct {
	Sig    string
	Detail string
}

type c11Obs struct {
	Knobs     c11Knobs
	Findings  []c11Finding
	Calls     []string
	Notes     []string
	OK        int // calls that returned a PID
	PreStarts int64
	Overlap   bool // at least two calls on the same name overlapped in time
	Coalesced bool // more successful callers than PreStarts (the flight or the lookup was shared)
	Aborted   bool // abort kinds: the winner ended with its own context error while its PreStart waited
	KillRaced bool // a Kill of the name overlapped a spawn call of that name
	Watchdog  string
	HotSites  []string
	Delays    int64
}

// c11Env is one actor system shared by the rounds of a batch.
type c11Env struct {
	sys    *actorSystem
	parent *PID
	seq    atomic.Int64
	rounds []*c11Round
	drift  int64 // NumActors() - (live instances + harness parent) as of the last settle
	roundN int
}

func c11NewEnv(t *testing.T) *c11Env {
	e := &c11Env{sys: vfNewSystem(t)}
	p, err := e.sys.Spawn(context.Background(), "c11parent", c11Parent{}, WithLongLived())
	if err != nil {
		t.Fatalf("spawn parent: %v", err)
	}
	e.parent = p
	return e
}

func (e *c11Env) liveTotal() int64 {
	var n int64
	for _, r := range e.rounds {
		n += r.live.Load()
	}
	return n
}

func (e *c11Env) settle() bool {
	dw := e.sys.getDeathWatch()
	streak := 0
	return verifrt.WaitUntil(40*time.Second, func() bool {
		if dw.mailbox.IsEmpty() && dw.systemMailbox.IsEmpty() && dw.schedState.v.Load() == dispatchIdle {
			streak++
		} else {
			streak = 0
		}
		if streak < 4 {
			time.Sleep(200 * time.Microsecond)
		}
		return streak >= 4
	})
}

func c11Guard(fn func() error) (err error, panicked string) {
	defer func() {
		if p := recover(); p != nil {
			panicked = fmt.Sprintf("%v\n%s", p, verifrt.Stack())
		}
	}()
	return fn(), ""
}

func (e *c11Env) runRound(t *testing.T, k c11Knobs, seed int64) (obs c11Obs) {
	obs = c11Obs{Knobs: k}
	rng := rand.New(rand.NewSource(seed))
	prev := runtime.GOMAXPROCS(k.Procs)
	defer runtime.GOMAXPROCS(prev)
	e.roundN++
	mk := func(name string) *c11Round {
		r := &c11Round{id: e.roundN, kind: k.Kind, name: name, seq: &e.seq, dwell: k.Dwell}
		e.rounds = append(e.rounds, r)
		return r
	}
	nameA := fmt.Sprintf("a%d", e.roundN)
	ra := mk(nameA)
	rounds := map[string]*c11Round{nameA: ra}
	if k.Kind == "two-names" {
		nameB := fmt.Sprintf("b%d", e.roundN)
		rounds[nameB] = mk(nameB)
	}
	bg := context.Background()

	if k.Noise > 0 {
		obs.HotSites = verifrt.StartNoise(verifrt.NoiseConfig{
			Seed: seed, GoschedPerMille: 20, HotSites: k.Noise,
			Candidates:  vfNoiseSites("spawn.go", "pid_tree.go", "actor/pid.go", "death_watch.go"),
			HotPerMille: 500, MinDelay: 20 * time.Microsecond, MaxDelay: 1200 * time.Microsecond, Budget: 60,
		})
	}

	calls := make([]*c11Call, k.Callers)
	abort := &c11Abort{entered: make(chan struct{})}
	abortNow := make(chan struct{})
	doCall := func(c *c11Call, inst int) {
		r := rounds[c.Name]
		ctx, cancel := context.WithCancel(bg)
		defer cancel()
		var ab *c11Abort
		switch c.Ctx {
		case "aborted-mid-flight":
			ab = abort
			go func() { <-abortNow; cancel() }()
		case "cancelled":
			cancel()
		case "soon-cancelled":
			d := time.Duration(20+inst*60) * time.Microsecond
			tm := time.AfterFunc(d, cancel)
			defer tm.Stop()
		}
		c.Start = e.seq.Add(1)
		var pid *PID
		err, pan := c11Guard(func() error {
			var err error
			switch c.API {
			case "spawn":
				pid, err = e.sys.Spawn(ctx, c.Name, &c11Inst{round: r, id: inst, abort: ab}, WithLongLived())
			case "func":
				pid, err = e.sys.SpawnNamedFromFunc(ctx, c.Name, func(context.Context, any) error { return nil },
					WithPreStart(func(pctx context.Context) error {
						if ab != nil {
							return ab.wait(pctx)
						}
						r.started(inst)
						return nil
					}),
					WithPostStop(func(context.Context) error { r.stopped(inst); return nil }))
			case "child":
				pid, err = e.parent.SpawnChild(ctx, c.Name, &c11Inst{round: r, id: inst, abort: ab}, WithLongLived())
			}
			return err
		})
		if err == nil && pan == "" && pid != nil {
			c.Running = pid.IsRunning()
		}
		c.End = e.seq.Add(1)
		c.pid, c.Panic = pid, pan
		if err != nil {
			c.Err = err.Error()
		}
	}
	for i := range calls {
		c := &c11Call{Caller: i, Name: nameA, Ctx: "live"}
		switch k.Kind {
		case "spawn", "kill-race", "spawn-after-kill", "two-names", "ctx":
			c.API = "spawn"
		case "func":
			c.API = "func"
		case "mixed":
			c.API = []string{"spawn", "func"}[rng.Intn(2)]
		case "child", "abort-child":
			c.API = "child"
		case "abort-spawn":
			c.API = "spawn"
		case "abort-func":
			c.API = "func"
		}
		if c11IsAbort(k.Kind) && i == 0 {
			c.Ctx = "aborted-mid-flight"
		}
		if k.Kind == "ctx" {
			c.Ctx = []string{"live", "cancelled", "soon-cancelled", "soon-cancelled"}[rng.Intn(4)]
			if i == k.Callers-1 {
				c.Ctx = "live"
			}
			if rng.Intn(3) == 0 {
				c.API = "func"
			}
		}
		if k.Kind == "two-names" && rng.Intn(2) == 0 {
			c.Name = fmt.Sprintf("b%d", e.roundN)
		}
		calls[i] = c
	}

	type killRec struct {
		Start, End int64
		Err, Panic string
	}
	var kills []killRec
	var kmu sync.Mutex
	kill := func() {
		kr := killRec{Start: e.seq.Add(1)}
		err, pan := c11Guard(func() error { return e.sys.Kill(bg, nameA) })
		kr.End = e.seq.Add(1)
		if err != nil {
			kr.Err = err.Error()
		}
		kr.Panic = pan
		kmu.Lock()
		kills = append(kills, kr)
		kmu.Unlock()
	}

	var wg, fwg sync.WaitGroup
	start := make(chan struct{})
	inlineFirst := false
	switch k.Kind {
	case "spawn-after-kill":
		// one instance exists, is killed, and the callers spawn the name the moment Kill returned
		first := &c11Call{Caller: -1, API: "spawn", Name: nameA, Ctx: "live"}
		doCall(first, 100)
		if first.Err != "" || first.pid == nil {
			t.Fatalf("initial spawn: %v", first.Err)
		}
		verifrt.WaitUntil(5*time.Second, func() bool { return c11Idle(first.pid) })
		if rng.Intn(3) > 0 {
			// a mass stop: the death watch has other terminations to process at the same time
			nf := 4 + rng.Intn(12)
			var fillers []string
			for f := 0; f < nf; f++ {
				fname := fmt.Sprintf("f%d-%d", e.roundN, f)
				fr := mk(fname)
				fr.dwell = 0
				if _, err := e.sys.Spawn(bg, fname, &c11Inst{round: fr, id: f}, WithLongLived()); err != nil {
					t.Fatalf("spawn filler: %v", err)
				}
				fillers = append(fillers, fname)
			}
			for _, fname := range fillers {
				fwg.Add(1)
				go func(fname string) {
					defer fwg.Done()
					_, _ = c11Guard(func() error { return e.sys.Kill(bg, fname) })
				}(fname)
			}
			runtime.Gosched()
		}
		kill()
		// the first caller spawns from this very goroutine, right after Kill returned
		doCall(calls[0], 0)
		inlineFirst = true
	case "kill-race":
		// one instance exists; a Kill runs concurrently with the callers
		first := &c11Call{Caller: -1, API: "spawn", Name: nameA, Ctx: "live"}
		doCall(first, 100)
		if first.Err != "" || first.pid == nil {
			t.Fatalf("initial spawn: %v", first.Err)
		}
		wg.Add(1)
		go func() {
			defer wg.Done()
			<-start
			for i := 0; i < rng.Intn(3); i++ {
				runtime.Gosched()
			}
			kill()
		}()
	}
	var issued atomic.Int64
	for i, c := range calls {
		if i == 0 && inlineFirst {
			continue
		}
		wg.Add(1)
		go func(i int, c *c11Call) {
			defer wg.Done()
			if !(i == 0 && c11IsAbort(k.Kind)) {
				<-start
			}
			issued.Add(1)
			doCall(c, i)
		}(i, c)
	}
	if c11IsAbort(k.Kind) {
		// the winner's flight is open once its PreStart waits for the context; the healthy
		// callers then join it, and only then the winner's context is cancelled
		select {
		case <-abort.entered:
		case <-time.After(30 * time.Second):
			obs.Watchdog = "the winner's PreStart was not entered within 30s"
		}
		close(start)
		verifrt.WaitUntil(20*time.Second, func() bool { return issued.Load() == int64(len(calls)) })
		time.Sleep(time.Duration(1+rng.Intn(4)) * time.Millisecond)
		close(abortNow)
	} else {
		close(start)
	}
	done := make(chan struct{})
	go func() { wg.Wait(); fwg.Wait(); close(done) }()
	select {
	case <-done:
	case <-time.After(40 * time.Second):
		obs.Watchdog = "spawn/kill calls did not return within 40s"
		if k.Noise > 0 {
			verifrt.StopNoise()
		}
		return obs
	}
	quiet := e.settle()
	if k.Noise > 0 {
		_, obs.Delays = verifrt.StopNoise()
	}
	if !quiet {
		obs.Watchdog = "death watch did not become idle within 40s"
		return obs
	}

	add := func(sig, format string, args ...any) {
		obs.Findings = append(obs.Findings, c11Finding{Sig: sig, Detail: fmt.Sprintf(format, args...)})
	}
	for _, kr := range kills {
		obs.Calls = append(obs.Calls, fmt.Sprintf("Kill(%s)[#%d..#%d] err=%q", nameA, kr.Start, kr.End, kr.Err))
		if kr.Panic != "" {
			add("panic-in-call:Kill:"+k.Kind, "Kill(%s) panicked: %s", nameA, kr.Panic)
		}
	}
	for _, c := range calls {
		obs.Calls = append(obs.Calls, c.String())
		if c.Panic != "" {
			add("panic-in-call:"+c.API+":"+k.Kind, "%s panicked: %s", c.String(), c.Panic)
		}
	}
	if c11IsAbort(k.Kind) {
		w := calls[0]
		obs.Aborted = abort.calls.Load() > 0 && (strings.Contains(w.Err, "context canceled") || strings.Contains(w.Err, "deadline exceeded"))
		obs.Calls = append(obs.Calls, fmt.Sprintf("winner PreStart invocations (each waited for the caller's context): %d", abort.calls.Load()))
	}
	for name, r := range rounds {
		obs.PreStarts += r.pre.Load()
		var ok []*c11Call
		for _, c := range calls {
			if c.Name == name && c.Err == "" && c.Panic == "" && c.pid != nil {
				ok = append(ok, c)
			}
			for _, d := range calls {
				if c != d && c.Name == name && d.Name == name && c.Start < d.End && d.Start < c.End {
					obs.Overlap = true
				}
			}
			for _, kr := range kills {
				if c.Name == nameA && c.Start < kr.End && kr.Start < c.End {
					obs.KillRaced = true
				}
			}
		}
		obs.OK += len(ok)
		if int64(len(ok)) > r.pre.Load() && len(ok) > 1 {
			obs.Coalesced = true
		}
		// (1) never two live instances of one name
		if m := r.maxLive.Load(); m > 1 {
			add("two-live-instances:"+k.Kind, "name %s had %d instances between PreStart and PostStop at once: %v", name, m, r.notes)
		}
		// (2) every successful caller got the same PID (rounds without a Kill); with a Kill, a call
		// issued after the Kill returned must get a running actor, all such calls the same one
		var judged []*c11Call
		if len(kills) == 0 {
			judged = ok
		} else {
			last := kills[len(kills)-1]
			for _, c := range ok {
				if c.Start > last.End {
					judged = append(judged, c)
				}
			}
		}
		for _, c := range judged {
			if c.pid != judged[0].pid {
				add("different-pids-returned:"+k.Kind, "two successful callers of %s received different PIDs: %s vs %s", name, judged[0].String(), c.String())
				break
			}
		}
		for _, c := range judged {
			if !c.Running || !c.pid.IsRunning() {
				after := "no-kill"
				if len(kills) > 0 {
					after = "call-issued-after-kill-returned"
				}
				add("spawn-returned-stopped-pid:"+k.Kind+":"+after, "%s returned without error but the PID was not running when the call returned (%v) / is not running at settle (%v); kills=%v; hooks=%v", c.String(), c.Running, c.pid.IsRunning(), kills, r.notes)
				break
			}
		}
		// (3) settle: live instances vs registration
		live := r.live.Load()
		reg := c11Registered(e.sys, name)
		regRunning := int64(0)
		if reg != nil && reg.IsRunning() {
			regRunning = 1
		}
		switch {
		case live > regRunning:
			add("live-instance-not-registered:"+k.Kind, "name %s: %d instance(s) ran PreStart and never PostStop, but %d running actor is registered under the name at settle (registered pid=%p); calls=%v hooks=%v", name, live, regRunning, reg, obs.Calls, r.notes)
		case live < regRunning:
			add("registered-running-without-live-instance:"+k.Kind, "name %s: registered pid %p IsRunning but the gauge shows %d live instances; hooks=%v", name, reg, live, r.notes)
		}
		if reg != nil && !reg.IsRunning() {
			add("stopped-pid-registered-at-settle:"+k.Kind, "name %s: a stopped pid %p is still registered at death-watch quiescence; calls=%v", name, reg, obs.Calls)
		}
		obs.Notes = append(obs.Notes, r.notes...)
	}
	// (4) NumActors vs running user actors (every user actor of this system is a harness instance or the harness parent)
	want := e.liveTotal() + 1
	got := int64(e.sys.NumActors())
	if d := got - want; d != e.drift {
		add("numactors-mismatch:"+k.Kind, "NumActors()=%d but %d user actors are running (live instances + parent); the difference moved from %d to %d in this round; calls=%v", got, want, e.drift, d, obs.Calls)
		e.drift = d
	}
	return obs
}

// c11Registered returns the pid registered for a name (the name index also covers children).
func c11Registered(sys *actorSystem, name string) *PID {
	if n, ok := sys.tree().nodeByName(name); ok {
		return n.value()
	}
	return nil
}

func c11Idle(p *PID) bool {
	return p.mailbox.IsEmpty() && p.systemMailbox.IsEmpty() && p.schedState.v.Load() == dispatchIdle
}
