//go:build verif

package actor

import (
	"context"
	"errors"
	"fmt"
	"math/rand"
	"net"
	"runtime"
	"strings"
	"sync"
	"sync/atomic"
	"syscall"
	"testing"
	"testing/synctest"
	"time"

	gerrors "github.com/tochemey/goakt/v4/errors"
	"github.com/tochemey/goakt/v4/internal/address"
	"github.com/tochemey/goakt/v4/internal/remoteclient"
	"github.com/tochemey/goakt/v4/internal/verifrt"
)

// C35 — relocation handoff masking respects caller deadlines.
//
// The whole batch runs inside ONE testing/synctest bubble: time.Now, timers,
// context deadlines and sleeps of the unmodified repository code run on the
// bubble's virtual clock, which only advances when every goroutine of the
// bubble is durably blocked. Elapsed virtual time of a call is therefore
// exactly the sum of the sleeps / timer waits the code asked for: the deadline
// arithmetic is decided exactly and independently of machine load.
//
// Seams used (no repository edit):
//   - PID.actorSystem (an interface field) of a real spawned sender is replaced
//     by c35Sys, which embeds the real *actorSystem and overrides only
//     InCluster (true), ActorOf (scripted window state, every resolution
//     recorded) and recordRelocationHandoff (counted). isEndpointRelocating and
//     relocationInFlight are the real ones on the real relocatingEndpoints TTL
//     map, driven through markEndpointRelocating / markEndpointRecovered, the
//     calls the cluster event handler uses.
//   - PID.remoting of the sender is a fake remoteclient.Client that records the
//     context deadline and timeout argument of every remote delivery attempt.
//   - the caller's context is a wrapper whose Done() notes calls made from
//     sleepWithinHandoff (one per backoff sleep).

type c35Msg struct {
	ID     int64
	Behave string // respond | delay | blackhole | refuse
	Delay  time.Duration
}

type c35Delivery struct {
	At          time.Duration `json:"at"`
	Kind        string        `json:"kind"` // local | remote
	Endpoint    string        `json:"endpoint,omitempty"`
	HasDeadline bool          `json:"has_deadline"`
	Deadline    time.Duration `json:"deadline_offset"`
	TimeoutArg  time.Duration `json:"timeout_arg"`
	MsgID       int64         `json:"msg"`
	Masked      bool          `json:"endpoint_masked_at_delivery"`
}

type c35Phase struct {
	Until time.Duration // phase applies to resolutions at offset < Until (last phase: forever)
	Kind  string        // departing | missing | live-local | live-remote | terminal
}

type c35Case struct {
	API       string // sync | async
	Timeout   time.Duration
	CtxKind   string        // background | longer | shorter
	CtxBudget time.Duration // for "shorter"/"longer": the context's own deadline offset
	Window    string        // name of the window-state script
	Phases    []c35Phase
	F         float64       // switch point as a fraction of the timeout
	RecoverAt time.Duration // >0: markEndpointRecovered at this offset
	MarkAge   time.Duration // the departing endpoint was marked this long before the call
	InFlight  bool          // another endpoint is within its handoff window
	Behave    string        // behaviour of the live target / the recovered endpoint
	Delay     time.Duration
	MsgID     int64

	// runtime
	sys        *actorSystem
	t0         time.Time
	departing  *PID
	liveRemote *PID
	liveLocal  *PID
	depEP      string

	mu         sync.Mutex
	resolves   []time.Duration
	sleeps     []time.Duration
	deliveries []c35Delivery
	handoffs   int
}

func (c *c35Case) key() string {
	return fmt.Sprintf("%s T=%v ctx=%s/%v win=%s f=%.2f rec=%v age=%v infl=%v tgt=%s/%v", c.API, c.Timeout, c.CtxKind, c.CtxBudget, c.Window, c.F, c.RecoverAt, c.MarkAge, c.InFlight, c.Behave, c.Delay)
}

func (c *c35Case) off() time.Duration { return time.Since(c.t0) }

func (c *c35Case) phaseAt(off time.Duration) string {
	for _, p := range c.Phases {
		if off < p.Until {
			return p.Kind
		}
	}
	return c.Phases[len(c.Phases)-1].Kind
}

var c35Cur atomic.Pointer[c35Case]

// c35Sys is the ActorSystem seen by the sender PID only.
type c35Sys struct {
	*actorSystem
}

func (s *c35Sys) InCluster() bool { return true }

func (s *c35Sys) ActorOf(ctx context.Context, name string) (*PID, error) {
	c := c35Cur.Load()
	if c == nil {
		return s.actorSystem.ActorOf(ctx, name)
	}
	off := c.off()
	c.mu.Lock()
	c.resolves = append(c.resolves, off)
	c.mu.Unlock()
	switch c.phaseAt(off) {
	case "departing":
		return c.departing, nil
	case "missing":
		return nil, gerrors.NewErrActorNotFound(name)
	case "live-local":
		return c.liveLocal, nil
	case "live-remote":
		return c.liveRemote, nil
	default:
		return nil, errors.New("c35 terminal resolution failure")
	}
}

func (s *c35Sys) recordRelocationHandoff(ctx context.Context) {
	if c := c35Cur.Load(); c != nil {
		c.mu.Lock()
		c.handoffs++
		c.mu.Unlock()
	}
	s.actorSystem.recordRelocationHandoff(ctx)
}

// c35Remoting is the sender's remoting client; only the two delivery calls exist.
type c35Remoting struct {
	remoteclient.Client // nil: anything else panics (nothing else is reached)
	delivered           sync.Map // msg id -> count (*atomic.Int64)
}

func (f *c35Remoting) note(id int64) {
	v, _ := f.delivered.LoadOrStore(id, &atomic.Int64{})
	v.(*atomic.Int64).Add(1)
}

func (f *c35Remoting) record(ctx context.Context, to *address.Address, m *c35Msg, timeout time.Duration) {
	c := c35Cur.Load()
	if c == nil {
		return
	}
	d := c35Delivery{At: c.off(), Kind: "remote", Endpoint: address.FormatHostPort(to.Host(), to.Port()), TimeoutArg: timeout, MsgID: m.ID}
	if dl, ok := ctx.Deadline(); ok {
		d.HasDeadline, d.Deadline = true, dl.Sub(c.t0)
	}
	d.Masked = c.sys.isEndpointRelocating(to)
	c.mu.Lock()
	c.deliveries = append(c.deliveries, d)
	c.mu.Unlock()
}

func (f *c35Remoting) RemoteAsk(ctx context.Context, _ *address.Address, to *address.Address, message any, timeout time.Duration) (any, error) {
	m, ok := message.(*c35Msg)
	if !ok {
		return nil, errors.New("c35: unexpected message")
	}
	f.record(ctx, to, m, timeout)
	wait := func(d time.Duration) error {
		tm := time.NewTimer(d)
		defer tm.Stop()
		select {
		case <-ctx.Done():
			return errors.Join(ctx.Err(), gerrors.ErrRequestTimeout)
		case <-tm.C:
			return nil
		}
	}
	switch m.Behave {
	case "respond":
		f.note(m.ID)
		return fmt.Sprintf("ack:%d", m.ID), nil
	case "delay":
		f.note(m.ID)
		if m.Delay >= timeout {
			if err := wait(timeout); err != nil {
				return nil, err
			}
			return nil, gerrors.ErrRequestTimeout
		}
		if err := wait(m.Delay); err != nil {
			return nil, err
		}
		return fmt.Sprintf("ack:%d", m.ID), nil
	case "refuse":
		return nil, &net.OpError{Op: "dial", Net: "tcp", Err: syscall.ECONNREFUSED}
	default: // blackhole: a dead host, the request goes nowhere
		if err := wait(timeout); err != nil {
			return nil, err
		}
		return nil, gerrors.ErrRequestTimeout
	}
}

func (f *c35Remoting) RemoteTell(ctx context.Context, _ *address.Address, to *address.Address, message any) error {
	m, ok := message.(*c35Msg)
	if !ok {
		return errors.New("c35: unexpected message")
	}
	f.record(ctx, to, m, 0)
	if m.Behave == "refuse" {
		return &net.OpError{Op: "dial", Net: "tcp", Err: syscall.ECONNREFUSED}
	}
	if m.Behave != "blackhole" {
		f.note(m.ID)
	}
	return nil
}

// c35Target is the local survivor actor.
type c35Target struct{ rem *c35Remoting }

func (a *c35Target) PreStart(*Context) error { return nil }
func (a *c35Target) PostStop(*Context) error { return nil }
func (a *c35Target) Receive(rctx *ReceiveContext) {
	m, ok := rctx.Message().(*c35Msg)
	if !ok {
		return
	}
	if c := c35Cur.Load(); c != nil {
		d := c35Delivery{At: c.off(), Kind: "local", MsgID: m.ID}
		if dl, ok := rctx.Context().Deadline(); ok {
			d.HasDeadline, d.Deadline = true, dl.Sub(c.t0)
		}
		c.mu.Lock()
		c.deliveries = append(c.deliveries, d)
		c.mu.Unlock()
	}
	switch m.Behave {
	case "respond":
		a.rem.note(m.ID)
		rctx.Response(fmt.Sprintf("ack:%d", m.ID))
	case "delay":
		a.rem.note(m.ID)
		time.Sleep(m.Delay) // virtual
		rctx.Response(fmt.Sprintf("ack:%d", m.ID))
	default: // blackhole / refuse: never answers
		a.rem.note(m.ID)
	}
}

type c35Sender struct{}

func (a *c35Sender) PreStart(*Context) error  { return nil }
func (a *c35Sender) PostStop(*Context) error  { return nil }
func (a *c35Sender) Receive(r *ReceiveContext) {
	if s, ok := r.Message().(string); ok {
		r.Response(s)
	}
}

// c35Ctx notes every Done() call that is made from sleepWithinHandoff.
type c35Ctx struct {
	context.Context
	c *c35Case
}

func (x *c35Ctx) Done() <-chan struct{} {
	var pcs [24]uintptr
	n := runtime.Callers(2, pcs[:])
	frames := runtime.CallersFrames(pcs[:n])
	for {
		fr, more := frames.Next()
		if strings.HasSuffix(fr.Function, ".sleepWithinHandoff") {
			x.c.mu.Lock()
			x.c.sleeps = append(x.c.sleeps, x.c.off())
			x.c.mu.Unlock()
			break
		}
		if !more {
			break
		}
	}
	return x.Context.Done()
}

var c35Timeouts = []time.Duration{20 * time.Millisecond, 100 * time.Millisecond, 400 * time.Millisecond, time.Second, 5 * time.Second}

const c35Forever = time.Duration(1<<62 - 1)

func c35Gen(rng *rand.Rand, jitter bool, id int64) *c35Case {
	c := &c35Case{MsgID: id}
	c.API = "sync"
	if rng.Intn(4) == 0 {
		c.API = "async"
	}
	c.Timeout = c35Timeouts[rng.Intn(len(c35Timeouts))]
	if jitter {
		c.Timeout = time.Duration(float64(c.Timeout) * (0.5 + rng.Float64()))
	}
	fs := []float64{0.3, 0.9, 1.5}
	c.F = fs[rng.Intn(len(fs))]
	if jitter {
		c.F = rng.Float64() * 2
	}
	sw := time.Duration(float64(c.Timeout) * c.F)
	live := []string{"live-local", "live-remote"}[rng.Intn(2)]
	switch rng.Intn(10) {
	case 0:
		c.Window = "pinned-forever"
		c.Phases = []c35Phase{{c35Forever, "departing"}}
	case 1:
		c.Window = "pinned-then-rewritten"
		c.Phases = []c35Phase{{sw, "departing"}, {c35Forever, live}}
	case 2:
		c.Window = "pinned-then-endpoint-recovered"
		c.Phases = []c35Phase{{c35Forever, "departing"}}
		c.RecoverAt = sw
		if c.RecoverAt <= 0 {
			c.RecoverAt = time.Millisecond
		}
	case 3:
		c.Window = "missing-inflight"
		c.Phases = []c35Phase{{c35Forever, "missing"}}
		c.InFlight = true
	case 4:
		c.Window = "missing-inflight-then-appears"
		c.Phases = []c35Phase{{sw, "missing"}, {c35Forever, live}}
		c.InFlight = true
	case 5:
		c.Window = "pinned-then-missing-then-rewritten"
		c.Phases = []c35Phase{{sw / 2, "departing"}, {sw, "missing"}, {c35Forever, live}}
		c.InFlight = true
	case 6:
		c.Window = "missing-no-relocation"
		c.Phases = []c35Phase{{c35Forever, "missing"}}
	case 7:
		c.Window = "live"
		c.Phases = []c35Phase{{c35Forever, live}}
		c.InFlight = rng.Intn(2) == 0
	case 8:
		c.Window = "pinned-mark-expiring"
		c.Phases = []c35Phase{{c35Forever, "departing"}}
		c.MarkAge = []time.Duration{2900 * time.Millisecond, 2990 * time.Millisecond, 2 * time.Second}[rng.Intn(3)]
	default:
		c.Window = "pinned-then-terminal"
		c.Phases = []c35Phase{{sw, "departing"}, {c35Forever, "terminal"}}
	}
	switch rng.Intn(6) {
	case 0, 1:
		c.Behave = "respond"
	case 2:
		c.Behave = "delay"
		c.Delay = time.Duration(float64(c.Timeout) * []float64{0.05, 0.5, 1.2}[rng.Intn(3)])
	case 3:
		c.Behave = "refuse"
	default:
		c.Behave = "blackhole"
	}
	switch rng.Intn(5) {
	case 0:
		c.CtxKind = "shorter"
		c.CtxBudget = time.Duration(float64(c.Timeout) * []float64{0.25, 0.6, 0.95}[rng.Intn(3)])
	case 1:
		c.CtxKind = "longer"
		c.CtxBudget = c.Timeout*2 + time.Second
	default:
		c.CtxKind = "background"
	}
	return c
}

type c35Env struct {
	sys    *actorSystem
	sender *PID
	local  *PID
	rem    *c35Remoting
	n      int
}

func c35Retryable(err error) bool { return err != nil && isHandoffRetryable(err) }

// c35RunCase drives one call and judges it. Everything runs on virtual time.
func c35RunCase(r *verifrt.Run, env *c35Env, c *c35Case) {
	sys := env.sys
	env.n++
	sys.relocatingEndpoints.Reset()
	// fresh endpoints per case: 10.x.y.z
	depHost := fmt.Sprintf("10.%d.%d.%d", 1+env.n/60000, (env.n/250)%250, 1+env.n%250)
	const depPort, peersPort = 7000, 3320
	depPeer := net.JoinHostPort(depHost, fmt.Sprint(peersPort))
	c.sys = sys
	c.depEP = address.FormatHostPort(depHost, depPort)
	c.departing = newRemotePID(address.New("target", sys.Name(), depHost, depPort), env.rem)
	c.liveRemote = newRemotePID(address.New("target", sys.Name(), "10.200.0.1", 9002), env.rem)
	c.liveLocal = env.local

	usesDeparting := false
	for _, p := range c.Phases {
		if p.Kind == "departing" {
			usesDeparting = true
		}
	}
	if usesDeparting {
		sys.peerRemotingPorts.Set(depPeer, depPort)
		sys.markEndpointRelocating(depPeer)
		if c.MarkAge > 0 {
			time.Sleep(c.MarkAge) // virtual: the mark ages before the call starts
		}
	}
	if c.InFlight {
		other := net.JoinHostPort("10.250.0.9", fmt.Sprint(peersPort))
		sys.peerRemotingPorts.Set(other, 7100)
		sys.markEndpointRelocating(other)
	}

	budget := c.Timeout
	var base context.Context = context.Background()
	var cancel context.CancelFunc = func() {}
	if c.CtxKind != "background" {
		base, cancel = context.WithTimeout(context.Background(), c.CtxBudget)
		if c.CtxBudget < budget {
			budget = c.CtxBudget
		}
	}
	defer cancel()
	ctx := &c35Ctx{Context: base, c: c}
	msg := &c35Msg{ID: c.MsgID, Behave: c.Behave, Delay: c.Delay}

	var recDone chan struct{}
	c.t0 = time.Now()
	c35Cur.Store(c)
	if c.RecoverAt > 0 {
		recDone = make(chan struct{})
		go func() {
			defer close(recDone)
			time.Sleep(c.RecoverAt)
			sys.markEndpointRecovered(depPeer)
		}()
	}

	var resp any
	var err error
	if c.API == "sync" {
		resp, err = env.sender.SendSync(ctx, "target", msg, c.Timeout)
	} else {
		err = env.sender.SendAsync(ctx, "target", msg)
	}
	elapsed := time.Since(c.t0)

	if recDone != nil {
		<-recDone
	}
	// delivered = a delivery attempt for this message reached a target (the local
	// survivor's Receive or the remoting client)
	delivered := func() int64 {
		c.mu.Lock()
		defer c.mu.Unlock()
		var k int64
		for _, d := range c.deliveries {
			if d.MsgID == c.MsgID {
				k++
			}
		}
		return k
	}
	if err == nil && delivered() == 0 {
		// a local Tell is handled asynchronously by the target's turn
		verifrt.WaitUntil(30*time.Second, func() bool { return delivered() > 0 })
	}
	// let a delayed/black-holed local target finish its turn before the next case
	verifrt.WaitUntil(30*time.Second, func() bool { return vfSchedStateName(env.local) == "idle" && env.local.mailbox.IsEmpty() })
	c35Cur.Store(nil)
	sys.forgetPeerRemotingPort(depPeer)

	c.mu.Lock()
	resolves := append([]time.Duration(nil), c.resolves...)
	sleeps := append([]time.Duration(nil), c.sleeps...)
	deliveries := append([]c35Delivery(nil), c.deliveries...)
	handoffs := c.handoffs
	c.mu.Unlock()

	errText := "<nil>"
	if err != nil {
		errText = err.Error()
	}
	detail := func() map[string]any {
		return map[string]any{"case": c.key(), "timeout": c.Timeout.String(), "budget": budget.String(), "elapsed_virtual": elapsed.String(),
			"resolves_at": fmt.Sprint(resolves), "sleeps_started_at": fmt.Sprint(sleeps), "deliveries": deliveries, "handoffs_recorded": handoffs,
			"err": errText, "retryable": c35Retryable(err), "response": fmt.Sprint(resp), "phases": fmt.Sprint(c.Phases)}
	}

	// "cannot be resolved in time": at every offset of the caller's budget the name
	// resolves to a masked departing endpoint or to nothing.
	unresolvable := true
	markLife := relocationHandoffWindow - c.MarkAge
	horizon := budget
	if c.API == "async" {
		horizon = 0
	}
	prev := time.Duration(0)
	for _, p := range c.Phases {
		if prev > horizon {
			break
		}
		switch p.Kind {
		case "departing":
			end := p.Until
			if end > horizon {
				end = horizon
			}
			if c.RecoverAt > 0 && c.RecoverAt <= end {
				unresolvable = false
			}
			if markLife <= end {
				unresolvable = false
			}
		case "missing":
		default:
			unresolvable = false
		}
		prev = p.Until
	}

	masked := len(sleeps) > 0
	nontrivial := false
	if c.API == "sync" {
		nontrivial = masked
		r.Count("sync_calls", 1)
		r.Count("sync_backoff_sleeps", int64(len(sleeps)))
		r.Count("sync_resolutions", int64(len(resolves)))
		if masked {
			r.Count("sync_calls_masked", 1)
		}
		r.Max("max_sync_elapsed_over_budget_permille", int64(elapsed*1000/budget))
		if elapsed > c.Timeout {
			r.Violation("sync-exceeds-timeout:"+c.Window, detail())
		} else if elapsed > budget {
			r.Violation("sync-exceeds-ctx-deadline:"+c.Window, detail())
		}
		for _, at := range resolves {
			if at > c.Timeout {
				r.Violation("sync-resolve-after-deadline:"+c.Window, detail())
				break
			}
		}
		for _, d := range deliveries {
			if d.Kind != "remote" {
				continue
			}
			eff := d.At + d.TimeoutArg
			if d.HasDeadline && d.Deadline < eff {
				eff = d.Deadline
			}
			r.Count("sync_remote_delivery_attempts", 1)
			if eff > c.Timeout {
				r.Violation("sync-delivery-deadline-late:"+c.Window, detail())
				break
			}
		}
		if unresolvable {
			r.Count("sync_unresolvable_in_time", 1)
			if !c35Retryable(err) {
				r.Violation("sync-nonretryable:"+c.Window, detail())
			}
		}
		if err == nil {
			r.Count("sync_success", 1)
			if want := fmt.Sprintf("ack:%d", c.MsgID); fmt.Sprint(resp) != want {
				r.Count("sync_response_mismatch", 1)
			}
		}
	} else {
		ph := c.phaseAt(0)
		nontrivial = ph == "departing" || (ph == "missing" && c.InFlight)
		r.Count("async_calls", 1)
		if nontrivial {
			r.Count("async_calls_hitting_handoff", 1)
		}
		if len(sleeps) > 0 {
			r.Violation("async-slept:"+c.Window, detail())
		}
		if elapsed > 0 {
			r.Violation("async-took-time:"+c.Window, detail())
		}
		if len(resolves) != 1 {
			r.Violation("async-resolutions:"+c.Window, detail())
		}
		if unresolvable {
			r.Count("async_unresolvable", 1)
			if !c35Retryable(err) {
				r.Violation("async-nonretryable:"+c.Window, detail())
			}
		}
		if err == nil {
			r.Count("async_success", 1)
		}
	}
	if err == nil && delivered() == 0 {
		r.Violation("success-without-delivery:"+c.API+":"+c.Window, detail())
	}
	for _, d := range deliveries {
		if d.Masked {
			r.Count("deliveries_to_masked_endpoint", 1)
		}
	}
	r.Case(c.key(), nontrivial)
	if env.n <= 4 {
		r.Sample(detail())
	}
}

func TestVerif_C35(t *testing.T) {
	r := verifrt.Start(t, "C35")
	defer r.Finish()
	r.Rule("case = one SendSync/SendAsync on a virtual clock (testing/synctest bubble): timeout in {20ms,100ms,400ms,1s,5s} (jittered in thorough) x caller context {background, deadline longer, deadline shorter than the timeout} x window state {pinned to a departing endpoint forever / until f*timeout then rewritten to a local or remote survivor / until the endpoint is marked recovered / with the mark's TTL expiring mid-call; name missing with or without a relocation in flight, appearing at f*timeout; pinned then missing then rewritten; terminal resolution error; live} x target behaviour {respond, delayed, black hole, connection refused}; oracle = exact virtual-time deadline arithmetic (elapsed <= min(timeout, ctx budget); no re-resolution after the deadline; effective deadline of every remote delivery attempt <= call start + timeout; retryable error when the script never resolves in time; async: zero virtual time, zero sleeps, one resolution; success implies delivery); non-trivial = sync call that slept at least once in the handoff loop, async call that hit a masked endpoint or a missing name during a relocation; distinct by the whole tuple")
	r.Assume("testing/synctest virtual time: elapsed virtual time of a call equals the sleeps and timer waits it requested; resolution itself is instantaneous in the script")
	rng := r.Rand(35)
	n := r.N(1600, 40000)
	jitter := !r.Quick()

	synctest.Test(t, func(t *testing.T) {
		sys := vfNewSystem(t)
		ctx := context.Background()
		rem := &c35Remoting{}
		sender, err := sys.Spawn(ctx, "c35sender", &c35Sender{}, WithLongLived())
		if err != nil {
			t.Fatalf("spawn sender: %v", err)
		}
		local, err := sys.Spawn(ctx, "c35survivor", &c35Target{rem: rem}, WithLongLived())
		if err != nil {
			t.Fatalf("spawn target: %v", err)
		}
		if _, err := Ask(ctx, sender, "ping", 10*time.Second); err != nil {
			t.Fatalf("ping sender: %v", err)
		}
		if !verifrt.WaitUntil(30*time.Second, func() bool { return vfSchedStateName(sender) == "idle" && sender.mailbox.IsEmpty() }) {
			t.Fatalf("sender did not settle")
		}
		wrapper := &c35Sys{actorSystem: sys}
		sender.fieldsLocker.Lock()
		orig := sender.actorSystem
		origRem := sender.remoting
		sender.actorSystem = wrapper
		sender.remoting = rem
		sender.fieldsLocker.Unlock()

		env := &c35Env{sys: sys, sender: sender, local: local, rem: rem}
		for i := 0; i < n; i++ {
			c := c35Gen(rng, jitter, int64(i+1))
			c35RunCase(r, env, c)
		}

		sender.fieldsLocker.Lock()
		sender.actorSystem = orig
		sender.remoting = origRem
		sender.fieldsLocker.Unlock()
		vfStop(sys)
		// the drain goroutine is only stopped by the repository when remoting is
		// enabled; a bubble must not leave goroutines behind
		sys.stopCoalescedFailureDrain()
	})
}
