//go:build verif

package actor

import (
	"context"
	"fmt"
	"math/rand"
	"testing"
	"time"

	"github.com/tochemey/goakt/v4/internal/verifrt"
	"github.com/tochemey/goakt/v4/supervisor"
)

// C10 implicit-parent scenario. A parent is registered as watcher of its child by
// the tree when the child is spawned; it never calls UnWatch here. The child goes
// through 0-3 supervised restarts (it fails, is suspended and restarted in place
// by its parent's Restart directive) and/or external Restart calls, then
// terminates by one path while the parent keeps running. The parent, a running
// watcher that did not unwatch, must receive exactly one Terminated naming the
// child; an unrelated explicit watcher is the control (exactly one as well).

func c10RunParentImplicit(t *testing.T, r *verifrt.Run, rng *rand.Rand, cases int) {
	sys := vfNewSystem(t)
	defer vfStop(sys)
	ctx := context.Background()
	for c := 0; c < cases; c++ {
		restarts := rng.Intn(4)      // supervised in-place restarts before the termination
		extRestart := rng.Intn(3) == 0 // plus one external Restart of the running child
		path := []string{"poisonpill", "kill", "stop-by-parent", "self-shutdown", "shutdown"}[rng.Intn(5)]
		key := fmt.Sprintf("parent-implicit supervised-restarts=%d external-restart=%v path=%s", restarts, extRestart, path)
		lg := &c10Log{}
		pname := fmt.Sprintf("c10p-%d-%d", r.Batch, c)
		parentAct := &c10Actor{log: lg, name: "parent"}
		parent, err := sys.Spawn(ctx, pname, parentAct, WithLongLived())
		if err != nil {
			t.Fatalf("spawn parent: %v", err)
		}
		ctrlAct := &c10Actor{log: lg, name: "control"}
		ctrl, err := sys.Spawn(ctx, pname+"-ctrl", ctrlAct, WithLongLived())
		if err != nil {
			t.Fatalf("spawn control: %v", err)
		}
		childAct := &c10Actor{log: lg, name: "child"}
		child, err := parent.SpawnChild(ctx, "child", childAct, WithLongLived(),
			WithSupervisor(supervisor.NewSupervisor(supervisor.WithAnyErrorDirective(supervisor.RestartDirective))))
		if err != nil {
			t.Fatalf("spawn child: %v", err)
		}
		childPath := child.Path().String()
		ok := true
		for i := 0; i < restarts && ok; i++ {
			before := childAct.preStarts.Load()
			if err := Tell(ctx, child, &c10Cmd{Cmd: "panic"}); err != nil {
				ok = false
				break
			}
			// the supervised restart is complete when PreStart ran again and the child is running
			ok = verifrt.WaitUntil(20*time.Second, func() bool { return childAct.preStarts.Load() > before && child.IsRunning() && !child.IsSuspended() })
		}
		if ok && extRestart {
			before := childAct.preStarts.Load()
			if err := child.Restart(ctx); err != nil {
				ok = false
			} else {
				ok = verifrt.WaitUntil(20*time.Second, func() bool { return childAct.preStarts.Load() > before && child.IsRunning() })
			}
		}
		if !ok {
			r.Inconclusive("C10 parent-implicit: restart phase did not settle: %s", key)
			_ = parent.Shutdown(ctx)
			_ = ctrl.Shutdown(ctx)
			continue
		}
		// what the restarts themselves told the parent (an external Restart stops the
		// running child first and may or may not announce that stop): sampled behind a
		// round trip through the parent's FIFO mailbox, then only the difference counts
		fl0 := make(chan struct{})
		_ = Tell(ctx, parent, &c10Cmd{Cmd: "watch", Target: ctrl, Done: fl0, op: &c10WatchOp{Watcher: "parent", Kind: "watch", Mode: "turn"}})
		select {
		case <-fl0:
		case <-time.After(20 * time.Second):
			r.Inconclusive("C10 parent-implicit: parent flush (before termination) not executed: %s", key)
			continue
		}
		beforeTermination, _ := parentAct.count(childPath)
		// the control watcher registers explicitly after the restarts
		done := make(chan struct{})
		op := &c10WatchOp{Watcher: "control", Kind: "watch", Mode: "turn"}
		_ = Tell(ctx, ctrl, &c10Cmd{Cmd: "watch", Target: child, Done: done, op: op})
		select {
		case <-done:
		case <-time.After(20 * time.Second):
			r.Inconclusive("C10 parent-implicit: control watch not executed: %s", key)
			continue
		}
		psBefore := childAct.postStops.Load()
		switch path {
		case "poisonpill":
			err = Tell(ctx, child, &PoisonPill{})
		case "kill":
			err = sys.Kill(ctx, child.Name())
		case "stop-by-parent":
			err = parent.Stop(ctx, child)
		case "self-shutdown":
			err = Tell(ctx, child, &c10Cmd{Cmd: "shutdown-self"})
		case "shutdown":
			err = child.Shutdown(ctx)
		}
		if err != nil {
			r.Inconclusive("C10 parent-implicit: termination request failed: %s: %v", key, err)
			continue
		}
		if !verifrt.WaitUntil(30*time.Second, func() bool { return childAct.postStops.Load() > psBefore && !child.IsRunning() }) {
			r.Inconclusive("C10 parent-implicit: child did not terminate: %s", key)
			continue
		}
		// the control's Terminated bounds the delivery: both are sent by the same
		// freeWatchers pass; then a round trip through the parent flushes its mailbox
		verifrt.WaitUntil(20*time.Second, func() bool { n, _ := ctrlAct.count(childPath); return n >= 1 })
		verifrt.WaitUntil(5*time.Second, func() bool { n, _ := parentAct.count(childPath); return n >= beforeTermination+1 })
		// one more turn of the parent behind whatever is queued (FIFO mailbox)
		fl := make(chan struct{})
		_ = Tell(ctx, parent, &c10Cmd{Cmd: "watch", Target: ctrl, Done: fl, op: &c10WatchOp{Watcher: "parent", Kind: "watch", Mode: "turn"}})
		select {
		case <-fl:
		case <-time.After(20 * time.Second):
			r.Inconclusive("C10 parent-implicit: parent flush not executed: %s", key)
			continue
		}
		gotCtrl, _ := ctrlAct.count(childPath)
		gotParent, at := parentAct.count(childPath)
		if !parent.IsRunning() || !ctrl.IsRunning() {
			r.Inconclusive("C10 parent-implicit: a watcher stopped: %s", key)
			continue
		}
		if gotCtrl != 1 {
			r.Violation(fmt.Sprintf("terminated-count:got=%d:want=1:%s:control-after-restarts", gotCtrl, path), map[string]any{"case": key})
		}
		// only the termination itself is judged: exactly one Terminated for it, whatever
		// the restarts before it announced (at most one per external Restart)
		wantParent := 1
		if beforeTermination > 1 || (beforeTermination == 1 && !extRestart) {
			r.Violation(fmt.Sprintf("terminated-before-termination:got=%d:%s:parent-implicit", beforeTermination, path), map[string]any{"case": key, "note": "the parent received Terminated(child) although the child had not terminated (supervised in-place restarts do not stop the child; an external Restart stops it once)"})
		}
		gotParent -= beforeTermination
		if gotParent != wantParent {
			how := "no-restart"
			if restarts > 0 {
				how = "after-supervised-restart"
			} else if extRestart {
				how = "after-external-restart"
			}
			r.Violation(fmt.Sprintf("terminated-count:got=%d:want=%d:%s:parent-implicit:%s", gotParent, wantParent, path, how), map[string]any{"case": key, "parent_received_at": at, "control_received": gotCtrl,
				"note": "the parent is registered as watcher of its child by the tree, is still running and never called UnWatch"})
		}
		r.Case(key, restarts > 0 || extRestart)
		r.Count("parent_implicit_cases", 1)
		_ = parent.Shutdown(ctx)
		_ = ctrl.Shutdown(ctx)
	}
}
