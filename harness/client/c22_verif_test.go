//go:build verif

package client

import (
	"os"
	"fmt"
	"math"
	"strings"
	"sync"
	"sync/atomic"
	"testing"
	"time"

	"github.com/tochemey/goakt/v4/internal/verifrt"
)

// C22 — the cluster client's balancers always pick a configured node; round-robin
// visits the nodes in cyclic order for any number of prior calls (the 32-bit
// counter is preset near its wrap through the unexported field).

type c22Pick struct {
	node     *Node
	panicked bool
	panicMsg string
}

// c22Next calls Next and converts a panic into an observation.
func c22Next(b Balancer) (p c22Pick) {
	defer func() {
		if rec := recover(); rec != nil {
			p.panicked = true
			p.panicMsg = fmt.Sprint(rec)
		}
	}()
	p.node = b.Next()
	return p
}

// c22NormPanic strips the variable parts of a runtime panic text.
func c22NormPanic(msg string) string {
	msg = strings.TrimPrefix(msg, "runtime error: ")
	if i := strings.Index(msg, " with length"); i > 0 {
		msg = msg[:i]
	}
	return strings.ReplaceAll(msg, " ", "-")
}

func c22Nodes(n int, weights func(i int) float64) []*Node {
	nodes := make([]*Node, n)
	for i := range nodes {
		w := 0.0
		if weights != nil {
			w = weights(i)
		}
		// bare nodes: Next() never touches the remoting client
		nodes[i] = &Node{address: fmt.Sprintf("127.0.0.1:%d", 4000+i), weight: w}
	}
	return nodes
}

func c22Index(nodes []*Node, n *Node) int {
	for i, c := range nodes {
		if c == n {
			return i
		}
	}
	return -1
}

func TestVerif_C22(t *testing.T) {
	r := verifrt.Start(t, "C22")
	defer r.Finish()
	r.Rule("case = (balancer kind, node-list size 1-7, preset of the internal 32-bit counter: 0, mid-range, or within 12 calls of 2^32, number of calls); oracle = every Next() returns without panic a node of the configured list, and for round-robin each pick is the cyclic successor (list order) of the previous pick (a panicking call still consumes its turn) and the first pick of a fresh balancer is the first node; least-load additionally must return a node of minimal weight (documented strategy); concurrent part: Set/SetWeight/Next from several goroutines, every pick must belong to one of the lists ever configured. non-trivial = the counter crossed 2^32 during the case (round-robin), or >1 node with distinct weights (least-load), or >1 node (random); distinct by the full tuple")
	r.Assume("RoundRobin.next is the only state deciding the round-robin pick (preset through the unexported field instead of 2^32 real calls; thorough also walks a real wrap)")

	rng := r.Rand(1)

	// ---------------- round-robin, sequential, counter presets ----------------
	nRR := r.N(400, 20000)
	var wraps, rrCalls int64
	for c := 0; c < nRR; c++ {
		size := 1 + rng.Intn(7)
		calls := 10 + rng.Intn(30)
		var preset uint32
		mode := rng.Intn(10)
		switch {
		case mode < 2:
			preset = 0
		case mode < 4:
			preset = rng.Uint32()
		case mode == 4:
			preset = math.MaxInt32 - uint32(rng.Intn(6)) // int32 boundary
		default:
			preset = math.MaxUint32 - uint32(rng.Intn(12)) // within 12 calls of the wrap
		}
		nodes := c22Nodes(size, nil)
		b := NewRoundRobin()
		b.Set(nodes...)
		atomic.StoreUint32(&b.next, preset)
		prevIdx := -1     // index of the previous successful pick
		prevCall := -1    // its call number (a panicking call in between still consumes its turn)
		prevCtr := preset // counter after the previous successful pick
		wrapped := false
		var seq []string
		bad := false
		for i := 0; i < calls; i++ {
			before := atomic.LoadUint32(&b.next)
			p := c22Next(b)
			after := atomic.LoadUint32(&b.next)
			rrCalls++
			if after < before {
				wrapped = true
			}
			detail := func() map[string]any {
				return map[string]any{"nodes": size, "preset_counter": preset, "call_index": i, "counter_before": before, "counter_after": after, "picks_so_far": strings.Join(seq, ","), "code": "client/round_robin.go Next: x.nodes[(int(n)-1)%len(x.nodes)]"}
			}
			if p.panicked {
				seq = append(seq, "PANIC")
				if !bad {
					d := detail()
					d["panic"] = p.panicMsg
					if after == 0 && strings.Contains(p.panicMsg, "index out of range [-1]") {
						r.Violation("roundrobin-wrap-panic:index -1", d)
					} else {
						r.Violation("roundrobin-panic:"+c22NormPanic(p.panicMsg), d)
					}
				}
				bad = true
				continue
			}
			idx := c22Index(nodes, p.node)
			seq = append(seq, fmt.Sprint(idx))
			if idx < 0 {
				r.Violation("roundrobin-unconfigured-node", detail())
				bad = true
				continue
			}
			crossed := after < prevCtr // the counter wrapped between the previous successful pick and this one
			if prevIdx >= 0 && idx != (prevIdx+(i-prevCall))%size {
				d := detail()
				d["previous_pick"] = prevIdx
				d["calls_since_previous_pick"] = i - prevCall
				d["pick"] = idx
				d["expected"] = (prevIdx + (i - prevCall)) % size
				if crossed {
					r.Violation(fmt.Sprintf("roundrobin-wrap-order:nodes=%d", size), d)
				} else {
					r.Violation("roundrobin-order", d)
				}
				bad = true
			}
			if prevIdx < 0 && preset == 0 && idx != 0 {
				d := detail()
				d["pick"] = idx
				r.Violation("roundrobin-first-pick-not-first-node", d)
				bad = true
			}
			prevIdx, prevCall, prevCtr = idx, i, after
		}
		if wrapped {
			wraps++
		}
		r.Case(fmt.Sprintf("rr/%d/%d/%d", size, preset, calls), wrapped && size > 1)
		if c < 2 || (wrapped && c < 40 && size > 1) {
			r.Sample(map[string]any{"kind": "roundrobin", "nodes": size, "preset": preset, "picks": strings.Join(seq, ","), "wrapped": wrapped, "ok": !bad})
		}
	}
	r.Count("rr_cases_crossing_2^32", wraps)
	r.Count("rr_calls", rrCalls)

	// thorough only: a real walk across the wrap without touching internal state
	if !r.Quick() && r.Batch == 0 {
		nodes := c22Nodes(3, nil)
		b := NewRoundRobin()
		b.Set(nodes...)
		prev := -1
		// a full 2^32 walk takes ~40 min under the race detector; since the counter
		// is now kept in [0, len) a free-running walk cannot reach a wrap anyway, so
		// the walk is only long enough to show sustained cyclic order. The wrap
		// itself is reached through the preset counter in every tier. Set
		// VERIF_C22_FULL_WALK=1 for the full 2^32+10 walk.
		total := uint64(1)<<27 + 10
		if os.Getenv("VERIF_C22_FULL_WALK") != "" {
			total = uint64(1)<<32 + 10
		}
		k, prevK := uint64(0), uint64(0)
		orderReported := false
		// segment runs plain Next() calls until the end or a panic (tight loop: no per-call defer)
		segment := func() (panicMsg string) {
			defer func() {
				if rec := recover(); rec != nil {
					panicMsg = fmt.Sprint(rec)
				}
			}()
			for k < total {
				k++
				n := b.Next()
				idx := -1
				switch n {
				case nodes[0]:
					idx = 0
				case nodes[1]:
					idx = 1
				case nodes[2]:
					idx = 2
				}
				if idx < 0 || (prev >= 0 && idx != (prev+int(k-prevK))%3) {
					if !orderReported {
						sig := "roundrobin-order"
						if idx < 0 {
							sig = "roundrobin-unconfigured-node"
						} else if k >= 1<<32 {
							sig = "roundrobin-wrap-order:nodes=3"
						}
						r.Violation(sig, map[string]any{"real_walk": true, "call": k, "pick": idx, "previous": prev})
					}
					orderReported = true
				}
				prev, prevK = idx, k
			}
			return ""
		}
		for k < total {
			if msg := segment(); msg != "" {
				sig := "roundrobin-panic:" + c22NormPanic(msg)
				if strings.Contains(msg, "index out of range [-1]") && k == 1<<32 {
					sig = "roundrobin-wrap-panic:index -1"
				}
				r.Violation(sig, map[string]any{"real_walk": true, "call": k, "panic": msg})
			}
		}
		r.Count("rr_real_walk_calls", int64(total))
		r.Case("rr/realwalk/3", true)
	}

	// ---------------- random ----------------
	nRand := r.N(60, 2000)
	perRand := r.Pick(20000, 50000)
	for c := 0; c < nRand; c++ {
		size := 1 + rng.Intn(7)
		nodes := c22Nodes(size, nil)
		b := NewRandom()
		b.Set(nodes...)
		seen := make([]int, size)
		for i := 0; i < perRand; i++ {
			p := c22Next(b)
			if p.panicked {
				r.Violation("random-panic:"+c22NormPanic(p.panicMsg), map[string]any{"nodes": size, "call": i, "panic": p.panicMsg})
				break
			}
			idx := c22Index(nodes, p.node)
			if idx < 0 {
				r.Violation("random-unconfigured-node", map[string]any{"nodes": size, "call": i})
				break
			}
			seen[idx]++
		}
		r.Count("random_calls", int64(perRand))
		r.Case(fmt.Sprintf("random/%d/%d", size, c), size > 1)
	}

	// ---------------- least-load, sequential ----------------
	nLL := r.N(2000, 100000)
	for c := 0; c < nLL; c++ {
		size := 1 + rng.Intn(7)
		wmode := rng.Intn(4)
		nodes := c22Nodes(size, func(i int) float64 {
			switch wmode {
			case 0:
				return 0 // all equal
			case 1:
				return float64(rng.Intn(3)) // many ties
			case 2:
				return rng.Float64() * 100
			default:
				return []float64{-1, 0, 1e9, math.Inf(1), math.SmallestNonzeroFloat64, 50}[rng.Intn(6)]
			}
		})
		orig := append([]*Node(nil), nodes...) // Next sorts the slice it was given in place
		b := NewLeastLoad()
		b.Set(nodes...)
		distinct := false
		steps := 3 + rng.Intn(10)
		for s := 0; s < steps; s++ {
			if s > 0 {
				// load changes between calls
				orig[rng.Intn(size)].SetWeight(float64(rng.Intn(200)) / 2)
			}
			minW := math.Inf(1)
			for _, n := range orig {
				if w := n.getWeight(); w < minW {
					minW = w
				}
			}
			for _, n := range orig {
				if n.getWeight() != minW {
					distinct = true
				}
			}
			p := c22Next(b)
			if p.panicked {
				r.Violation("leastload-panic:"+c22NormPanic(p.panicMsg), map[string]any{"nodes": size, "step": s, "panic": p.panicMsg})
				break
			}
			idx := c22Index(orig, p.node)
			if idx < 0 {
				r.Violation("leastload-unconfigured-node", map[string]any{"nodes": size, "step": s})
				break
			}
			if w := p.node.getWeight(); w != minW {
				ws := make([]float64, size)
				for i, n := range orig {
					ws[i] = n.getWeight()
				}
				r.Violation("leastload-not-minimal-weight", map[string]any{"nodes": size, "step": s, "weights": fmt.Sprint(ws), "picked_weight": w, "min_weight": minW})
				break
			}
			// the balancer's list must still be a permutation of the configured nodes
			for _, n := range b.nodes {
				if c22Index(orig, n) < 0 {
					r.Violation("leastload-list-corrupted", map[string]any{"nodes": size, "step": s})
				}
			}
			if len(b.nodes) != size {
				r.Violation("leastload-list-corrupted", map[string]any{"nodes": size, "step": s, "len": len(b.nodes)})
			}
		}
		r.Count("leastload_calls", int64(steps))
		r.Case(fmt.Sprintf("ll/%d/%d/%d", size, wmode, c), size > 1 && distinct)
	}

	// ---------------- concurrent Set / SetWeight / Next (race detector) ----------------
	nConc := r.N(24, 600)
	for c := 0; c < nConc; c++ {
		kind := []string{"roundrobin", "random", "leastload"}[c%3]
		// two lists that are ever configured; each goroutine owning a list passes a
		// private copy to Set (Set keeps the slice; LeastLoad sorts it in place)
		listA := c22Nodes(1+rng.Intn(7), func(int) float64 { return float64(rng.Intn(10)) })
		listB := c22Nodes(1+rng.Intn(7), func(int) float64 { return float64(rng.Intn(10)) })
		member := map[*Node]bool{}
		for _, n := range listA {
			member[n] = true
		}
		for _, n := range listB {
			member[n] = true
		}
		var b Balancer
		switch kind {
		case "roundrobin":
			rr := NewRoundRobin()
			// start below the wrap only when the genuine wrap defect cannot fire
			// (it is judged in the sequential part): keep the counter far from 2^32
			atomic.StoreUint32(&rr.next, uint32(rng.Intn(1<<20)))
			b = rr
		case "random":
			b = NewRandom()
		default:
			b = NewLeastLoad()
		}
		b.Set(append([]*Node(nil), listA...)...)
		var wg sync.WaitGroup
		var picks, bads atomic.Int64
		var firstBad atomic.Value
		stop := make(chan struct{})
		callers := 2 + rng.Intn(5)
		per := r.Pick(3000, 6000)
		for g := 0; g < callers; g++ {
			wg.Add(1)
			go func() {
				defer wg.Done()
				for i := 0; i < per; i++ {
					p := c22Next(b)
					picks.Add(1)
					if p.panicked {
						bads.Add(1)
						firstBad.CompareAndSwap(nil, "panic:"+c22NormPanic(p.panicMsg))
						continue
					}
					if !member[p.node] {
						bads.Add(1)
						firstBad.CompareAndSwap(nil, "unconfigured-node")
					}
				}
			}()
		}
		wg.Add(2)
		seedS, seedW := rng.Int63(), rng.Int63()
		go func() { // setter
			defer wg.Done()
			l := c22NewLCG(seedS)
			for {
				select {
				case <-stop:
					return
				default:
				}
				if l.next()%2 == 0 {
					b.Set(append([]*Node(nil), listA...)...)
				} else {
					b.Set(append([]*Node(nil), listB...)...)
				}
			}
		}()
		go func() { // weights move while picking
			defer wg.Done()
			l := c22NewLCG(seedW)
			all := append(append([]*Node(nil), listA...), listB...)
			for {
				select {
				case <-stop:
					return
				default:
				}
				all[int(l.next()%uint64(len(all)))].SetWeight(float64(l.next() % 100))
			}
		}()
		// the callers finish on their own; then stop the two mutators
		done := make(chan struct{})
		go func() {
			// wait for callers only: they are the first `callers` Add(1)s; simplest is polling the pick count
			verifrt.WaitUntil(120*time.Second, func() bool { return picks.Load() >= int64(callers*per) })
			close(stop)
			close(done)
		}()
		<-done
		wg.Wait()
		if picks.Load() < int64(callers*per) {
			r.Inconclusive("concurrent case %d (%s): callers did not finish within the watchdog", c, kind)
		}
		if bads.Load() > 0 {
			r.Violation(kind+"-concurrent-"+fmt.Sprint(firstBad.Load()), map[string]any{"kind": kind, "callers": callers, "bad_picks": bads.Load(), "picks": picks.Load(), "sizes": []int{len(listA), len(listB)}})
		}
		r.Count("concurrent_picks", picks.Load())
		r.Case(fmt.Sprintf("conc/%s/%d/%d/%d", kind, len(listA), len(listB), callers), true)
	}
}

type c22LCG struct{ s uint64 }

func c22NewLCG(seed int64) *c22LCG { return &c22LCG{uint64(seed)*2862933555777941757 + 3037000493} }
func (l *c22LCG) next() uint64 {
	l.s = l.s*6364136223846793005 + 1442695040888963407
	return l.s >> 33
}
