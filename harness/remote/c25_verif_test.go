//go:build verif

package remote

import (
	"bytes"
	"encoding/binary"
	"fmt"
	"math"
	"math/rand"
	"reflect"
	"sort"
	"strings"
	"testing"
	"time"
	"unicode/utf8"

	"google.golang.org/protobuf/proto"
	"google.golang.org/protobuf/reflect/protoreflect"
	"google.golang.org/protobuf/reflect/protoregistry"

	_ "github.com/tochemey/goakt/v4/internal/internalpb"
	"github.com/tochemey/goakt/v4/internal/types"
	"github.com/tochemey/goakt/v4/internal/verifrt"
	_ "github.com/tochemey/goakt/v4/test/data/testpb"
)

// ---------------------------------------------------------------------------
// value domain for the registry based serializers (CBOR, JSON)
// ---------------------------------------------------------------------------

type c25Kind int32

type c25Inner struct {
	ID    int64
	Label string
	Tags  []string
	Attr  map[string]int32
	Ref   *c25Leaf
}

type c25Leaf struct {
	V uint32
	S string
}

type c25Msg struct {
	B    bool
	I    int
	I8   int8
	I16  int16
	I32  int32
	I64  int64
	U    uint
	U8   uint8
	U16  uint16
	U32  uint32
	U64  uint64
	F32  float32
	F64  float64
	S    string
	Raw  []byte
	L    []int64
	LS   []string
	LF   []float64
	LN   []c25Inner
	LP   []*c25Leaf
	M    map[string]string
	MI   map[int64]string
	MN   map[string]c25Inner
	P    *c25Inner
	PS   *string
	PI   *int64
	N    c25Inner
	T    time.Time
	PT   *time.Time
	Arr  [4]uint16
	E    c25Kind
	Deep [][]int32
}

// c25Small is a second registered type so that type names matter.
type c25Small struct {
	Name  string
	Count int
	When  time.Time
}

// c25Unregistered is never registered with the types registry.
type c25Unregistered struct{ X int }

// c25Chan is registered but holds something no codec can encode.
type c25Chan struct {
	C chan int
	X int
}

type c25Gen struct {
	rng       *rand.Rand
	invalidS  bool // allow strings that are not valid UTF-8
	nonFinite bool // allow NaN / Inf
	timeNanos bool // allow sub-second instants below a microsecond
	timeWhole bool // whole seconds only
}

func (g *c25Gen) str() string {
	rng := g.rng
	switch rng.Intn(12) {
	case 0:
		return ""
	case 1:
		return "é世界  \"quoted\" \\ </script> \x00 \x1f 𝄞"
	case 2:
		return strings.Repeat("xy", rng.Intn(400))
	case 3, 4:
		if g.invalidS {
			return c25NonUTF8(rng)
		}
	}
	n := rng.Intn(20)
	var sb strings.Builder
	for i := 0; i < n; i++ {
		switch rng.Intn(8) {
		case 0:
			sb.WriteRune(rune(0x80 + rng.Intn(0x700)))
		case 1:
			sb.WriteRune(rune(0x4e00 + rng.Intn(0x500)))
		case 2:
			sb.WriteByte("\"\\/\b\f\n\r\t<>&'"[rng.Intn(12)])
		default:
			sb.WriteByte(byte(32 + rng.Intn(95)))
		}
	}
	return sb.String()
}

// c25NonUTF8 returns a Go string holding bytes that are not valid UTF-8: raw
// digests kept in a string, Latin-1 text, truncated or overlong sequences,
// UTF-16 surrogates, and pairs that differ only in an invalid byte.
func c25NonUTF8(rng *rand.Rand) string {
	switch rng.Intn(9) {
	case 0:
		b := make([]byte, 8+rng.Intn(25)) // raw digest
		rng.Read(b)
		b[rng.Intn(len(b))] = 0xff
		return string(b)
	case 1:
		return "caf\xe9" // Latin-1
	case 2:
		return "truncated \xe4\xb8" // multi-byte sequence cut short
	case 3:
		return "\x80 lone continuation"
	case 4:
		return "overlong \xc0\xaf"
	case 5:
		return "surrogate \xed\xa0\x80"
	case 6:
		return "k\xff" // with case 7: two keys that differ only in an invalid byte
	case 7:
		return "k\xfe"
	}
	return "bad\xff\xfeutf8\xc3"
}

func (g *c25Gen) f64() float64 {
	rng := g.rng
	switch rng.Intn(10) {
	case 0:
		return 0
	case 1:
		if g.nonFinite {
			return []float64{math.NaN(), math.Inf(1), math.Inf(-1)}[rng.Intn(3)]
		}
		return -0.5
	case 2:
		return []float64{math.MaxFloat64, math.SmallestNonzeroFloat64, -math.MaxFloat64, 1e21, 1e-7, 0.1, 1.0 / 3}[rng.Intn(7)]
	case 3:
		return float64(rng.Int63n(1 << 53))
	}
	return rng.NormFloat64() * math.Pow(10, float64(rng.Intn(40)-20))
}

func (g *c25Gen) f32() float32 {
	rng := g.rng
	switch rng.Intn(8) {
	case 0:
		return 0
	case 1:
		if g.nonFinite {
			return float32(math.Inf(1))
		}
		return 2.5
	case 2:
		return []float32{math.MaxFloat32, math.SmallestNonzeroFloat32, 0.1, 16777216, 1e-10}[rng.Intn(5)]
	}
	return float32(rng.NormFloat64() * math.Pow(10, float64(rng.Intn(20)-10)))
}

func (g *c25Gen) i64() int64 {
	rng := g.rng
	switch rng.Intn(6) {
	case 0:
		return []int64{0, 1, -1, math.MaxInt64, math.MinInt64, 1 << 53, -(1 << 53) - 1, 23, 24, 255, 256, 65535, 65536}[rng.Intn(13)]
	}
	return int64(rng.Uint64()) >> uint(rng.Intn(64))
}

func (g *c25Gen) u64() uint64 {
	rng := g.rng
	if rng.Intn(6) == 0 {
		return []uint64{0, 1, math.MaxUint64, 1 << 63, 1<<53 + 1, math.MaxUint32}[rng.Intn(6)]
	}
	return rng.Uint64() >> uint(rng.Intn(64))
}

func (g *c25Gen) time() time.Time {
	rng := g.rng
	sec := rng.Int63n(4102444800) // 1970 .. 2100
	var ns int64
	k := rng.Intn(4)
	if g.timeWhole {
		k = 0
	}
	switch k {
	case 0:
		ns = 0
	case 1:
		ns = rng.Int63n(1000) * 1e6
	case 2:
		ns = rng.Int63n(1e6) * 1e3
	default:
		if g.timeNanos {
			ns = rng.Int63n(1e9)
		}
	}
	t := time.Unix(sec, ns)
	switch rng.Intn(3) {
	case 0:
		return t.UTC()
	case 1:
		return t.In(time.FixedZone("x", (rng.Intn(27)-12)*3600))
	}
	return t
}

func (g *c25Gen) leaf() *c25Leaf {
	if g.rng.Intn(4) == 0 {
		return nil
	}
	return &c25Leaf{V: uint32(g.u64()), S: g.str()}
}

func (g *c25Gen) inner() c25Inner {
	rng := g.rng
	in := c25Inner{ID: g.i64(), Label: g.str(), Ref: g.leaf()}
	for n := rng.Intn(4); n > 0; n-- {
		in.Tags = append(in.Tags, g.str())
	}
	if rng.Intn(2) == 0 {
		in.Attr = map[string]int32{}
		for n := rng.Intn(4); n > 0; n-- {
			in.Attr[g.str()] = int32(g.i64())
		}
	}
	return in
}

func (g *c25Gen) msg() *c25Msg {
	rng := g.rng
	m := &c25Msg{
		B: rng.Intn(2) == 0, I: int(g.i64()), I8: int8(g.i64()), I16: int16(g.i64()), I32: int32(g.i64()), I64: g.i64(),
		U: uint(g.u64()), U8: uint8(g.u64()), U16: uint16(g.u64()), U32: uint32(g.u64()), U64: g.u64(),
		F32: g.f32(), F64: g.f64(), S: g.str(), N: g.inner(), T: g.time(), E: c25Kind(g.i64()),
	}
	if rng.Intn(3) != 0 {
		m.Raw = make([]byte, rng.Intn(80))
		rng.Read(m.Raw)
	}
	for n := rng.Intn(5); n > 0; n-- {
		m.L = append(m.L, g.i64())
	}
	for n := rng.Intn(4); n > 0; n-- {
		m.LS = append(m.LS, g.str())
	}
	for n := rng.Intn(4); n > 0; n-- {
		m.LF = append(m.LF, g.f64())
	}
	for n := rng.Intn(3); n > 0; n-- {
		m.LN = append(m.LN, g.inner())
	}
	for n := rng.Intn(4); n > 0; n-- {
		m.LP = append(m.LP, g.leaf())
	}
	if rng.Intn(2) == 0 {
		m.M = map[string]string{}
		for n := rng.Intn(5); n > 0; n-- {
			m.M[g.str()] = g.str()
		}
	}
	if rng.Intn(2) == 0 {
		m.MI = map[int64]string{}
		for n := rng.Intn(5); n > 0; n-- {
			m.MI[g.i64()] = g.str()
		}
	}
	if rng.Intn(2) == 0 {
		m.MN = map[string]c25Inner{}
		for n := rng.Intn(3); n > 0; n-- {
			m.MN[g.str()] = g.inner()
		}
	}
	if rng.Intn(2) == 0 {
		in := g.inner()
		m.P = &in
	}
	if rng.Intn(2) == 0 {
		s := g.str()
		m.PS = &s
	}
	if rng.Intn(2) == 0 {
		v := g.i64()
		m.PI = &v
	}
	if rng.Intn(2) == 0 {
		t := g.time()
		m.PT = &t
	}
	for i := range m.Arr {
		m.Arr[i] = uint16(g.u64())
	}
	for n := rng.Intn(3); n > 0; n-- {
		var row []int32
		for k := rng.Intn(3); k > 0; k-- {
			row = append(row, int32(g.i64()))
		}
		m.Deep = append(m.Deep, row)
	}
	return m
}

func (g *c25Gen) primitive() any {
	switch g.rng.Intn(14) {
	case 0:
		return g.str()
	case 1:
		return g.rng.Intn(2) == 0
	case 2:
		return int(g.i64())
	case 3:
		return int8(g.i64())
	case 4:
		return int16(g.i64())
	case 5:
		return int32(g.i64())
	case 6:
		return g.i64()
	case 7:
		return uint(g.u64())
	case 8:
		return uint8(g.u64())
	case 9:
		return uint16(g.u64())
	case 10:
		return uint32(g.u64())
	case 11:
		return g.u64()
	case 12:
		return g.f32()
	}
	return g.f64()
}

// c25Same is the equality of the value domain: instants for time.Time, nil
// and empty containers alike, NaN equal to NaN, pointers by pointee.
func c25Same(a, b reflect.Value, path string) (bool, string) {
	if a.IsValid() != b.IsValid() {
		return false, path + ": one side invalid"
	}
	if !a.IsValid() {
		return true, ""
	}
	if a.Type() != b.Type() {
		return false, fmt.Sprintf("%s: type %v vs %v", path, a.Type(), b.Type())
	}
	if a.Type() == reflect.TypeOf(time.Time{}) {
		ta, tb := a.Interface().(time.Time), b.Interface().(time.Time)
		if !ta.Equal(tb) {
			return false, fmt.Sprintf("%s: time %s vs %s (diff %v)", path, ta.UTC().Format(time.RFC3339Nano), tb.UTC().Format(time.RFC3339Nano), tb.Sub(ta))
		}
		return true, ""
	}
	switch a.Kind() {
	case reflect.Pointer, reflect.Interface:
		if a.IsNil() || b.IsNil() {
			if a.IsNil() != b.IsNil() {
				return false, path + ": nil vs non-nil"
			}
			return true, ""
		}
		return c25Same(a.Elem(), b.Elem(), path)
	case reflect.Struct:
		for i := 0; i < a.NumField(); i++ {
			if ok, why := c25Same(a.Field(i), b.Field(i), path+"."+a.Type().Field(i).Name); !ok {
				return false, why
			}
		}
		return true, ""
	case reflect.Slice, reflect.Array:
		if a.Len() != b.Len() {
			return false, fmt.Sprintf("%s: len %d vs %d", path, a.Len(), b.Len())
		}
		if a.Kind() == reflect.Slice && a.Type().Elem().Kind() == reflect.Uint8 {
			if !bytes.Equal(a.Bytes(), b.Bytes()) {
				return false, fmt.Sprintf("%s: bytes %x vs %x", path, a.Bytes(), b.Bytes())
			}
			return true, ""
		}
		for i := 0; i < a.Len(); i++ {
			if ok, why := c25Same(a.Index(i), b.Index(i), fmt.Sprintf("%s[%d]", path, i)); !ok {
				return false, why
			}
		}
		return true, ""
	case reflect.Map:
		if a.Len() != b.Len() {
			return false, fmt.Sprintf("%s: map len %d vs %d", path, a.Len(), b.Len())
		}
		it := a.MapRange()
		for it.Next() {
			bv := b.MapIndex(it.Key())
			if !bv.IsValid() {
				return false, fmt.Sprintf("%s[%v]: key missing", path, it.Key())
			}
			if ok, why := c25Same(it.Value(), bv, fmt.Sprintf("%s[%v]", path, it.Key())); !ok {
				return false, why
			}
		}
		return true, ""
	case reflect.Float32, reflect.Float64:
		fa, fb := a.Float(), b.Float()
		if fa != fb && !(math.IsNaN(fa) && math.IsNaN(fb)) {
			return false, fmt.Sprintf("%s: float %v vs %v", path, fa, fb)
		}
		return true, ""
	case reflect.String:
		if a.String() != b.String() {
			return false, fmt.Sprintf("%s: string %q vs %q", path, a.String(), b.String())
		}
		return true, ""
	case reflect.Bool:
		return a.Bool() == b.Bool(), path + ": bool"
	case reflect.Int, reflect.Int8, reflect.Int16, reflect.Int32, reflect.Int64:
		if a.Int() != b.Int() {
			return false, fmt.Sprintf("%s: int %d vs %d", path, a.Int(), b.Int())
		}
		return true, ""
	case reflect.Uint, reflect.Uint8, reflect.Uint16, reflect.Uint32, reflect.Uint64:
		if a.Uint() != b.Uint() {
			return false, fmt.Sprintf("%s: uint %d vs %d", path, a.Uint(), b.Uint())
		}
		return true, ""
	}
	return false, fmt.Sprintf("%s: unsupported kind %v", path, a.Kind())
}

func c25ValidUTF8(v reflect.Value) bool {
	switch v.Kind() {
	case reflect.String:
		return utf8.ValidString(v.String())
	case reflect.Pointer, reflect.Interface:
		return v.IsNil() || c25ValidUTF8(v.Elem())
	case reflect.Struct:
		if v.Type() == reflect.TypeOf(time.Time{}) {
			return true
		}
		for i := 0; i < v.NumField(); i++ {
			if !c25ValidUTF8(v.Field(i)) {
				return false
			}
		}
	case reflect.Slice, reflect.Array:
		if v.Type().Elem().Kind() == reflect.Uint8 {
			return true
		}
		for i := 0; i < v.Len(); i++ {
			if !c25ValidUTF8(v.Index(i)) {
				return false
			}
		}
	case reflect.Map:
		it := v.MapRange()
		for it.Next() {
			if !c25ValidUTF8(it.Key()) || !c25ValidUTF8(it.Value()) {
				return false
			}
		}
	}
	return true
}

// ---------------------------------------------------------------------------
// protobuf filler (every field kind of a descriptor)
// ---------------------------------------------------------------------------

func c25ProtoTypes() []protoreflect.MessageType {
	var out []protoreflect.MessageType
	protoregistry.GlobalTypes.RangeMessages(func(mt protoreflect.MessageType) bool {
		if !mt.Descriptor().IsMapEntry() {
			out = append(out, mt)
		}
		return true
	})
	sort.Slice(out, func(i, j int) bool { return out[i].Descriptor().FullName() < out[j].Descriptor().FullName() })
	return out
}

func c25Scalar(g *c25Gen, fd protoreflect.FieldDescriptor) protoreflect.Value {
	rng := g.rng
	switch fd.Kind() {
	case protoreflect.BoolKind:
		return protoreflect.ValueOfBool(rng.Intn(2) == 0)
	case protoreflect.EnumKind:
		vals := fd.Enum().Values()
		if vals.Len() == 0 || rng.Intn(10) == 0 {
			return protoreflect.ValueOfEnum(protoreflect.EnumNumber(rng.Intn(1000)))
		}
		return protoreflect.ValueOfEnum(vals.Get(rng.Intn(vals.Len())).Number())
	case protoreflect.Int32Kind, protoreflect.Sint32Kind, protoreflect.Sfixed32Kind:
		return protoreflect.ValueOfInt32(int32(g.i64()))
	case protoreflect.Uint32Kind, protoreflect.Fixed32Kind:
		return protoreflect.ValueOfUint32(uint32(g.u64()))
	case protoreflect.Int64Kind, protoreflect.Sint64Kind, protoreflect.Sfixed64Kind:
		return protoreflect.ValueOfInt64(g.i64())
	case protoreflect.Uint64Kind, protoreflect.Fixed64Kind:
		return protoreflect.ValueOfUint64(g.u64())
	case protoreflect.FloatKind:
		return protoreflect.ValueOfFloat32(g.f32())
	case protoreflect.DoubleKind:
		return protoreflect.ValueOfFloat64(g.f64())
	case protoreflect.StringKind:
		return protoreflect.ValueOfString(g.str())
	case protoreflect.BytesKind:
		b := make([]byte, rng.Intn(48))
		rng.Read(b)
		return protoreflect.ValueOfBytes(b)
	}
	panic("c25: unexpected kind " + fd.Kind().String())
}

func c25Fill(g *c25Gen, m protoreflect.Message, depth int) {
	rng := g.rng
	fds := m.Descriptor().Fields()
	for i := 0; i < fds.Len(); i++ {
		fd := fds.Get(i)
		if rng.Intn(10) < 3 {
			continue
		}
		if od := fd.ContainingOneof(); od != nil && !od.IsSynthetic() && rng.Intn(od.Fields().Len()) != 0 {
			continue
		}
		isMsg := fd.Kind() == protoreflect.MessageKind || fd.Kind() == protoreflect.GroupKind
		switch {
		case fd.IsMap():
			valMsg := fd.MapValue().Kind() == protoreflect.MessageKind
			if depth <= 0 && valMsg {
				continue
			}
			mp := m.Mutable(fd).Map()
			for n := rng.Intn(4); n > 0; n-- {
				k := c25Scalar(g, fd.MapKey()).MapKey()
				if valMsg {
					v := mp.NewValue()
					c25Fill(g, v.Message(), depth-1)
					mp.Set(k, v)
				} else {
					mp.Set(k, c25Scalar(g, fd.MapValue()))
				}
			}
		case fd.IsList():
			if depth <= 0 && isMsg {
				continue
			}
			l := m.Mutable(fd).List()
			for n := rng.Intn(4); n > 0; n-- {
				if isMsg {
					v := l.NewElement()
					c25Fill(g, v.Message(), depth-1)
					l.Append(v)
				} else {
					l.Append(c25Scalar(g, fd))
				}
			}
		case isMsg:
			if depth > 0 {
				c25Fill(g, m.Mutable(fd).Message(), depth-1)
			}
		default:
			m.Set(fd, c25Scalar(g, fd))
		}
	}
}

// ---------------------------------------------------------------------------
// oracle
// ---------------------------------------------------------------------------

type c25Codec struct {
	name string
	s    Serializer
}

func c25Call(f func() (any, error)) (v any, err error, pan string) {
	defer func() {
		if rec := recover(); rec != nil {
			pan = fmt.Sprintf("%v\n%s", rec, verifrt.Stack())
		}
	}()
	v, err = f()
	return
}

func c25Text(v any) string {
	s := fmt.Sprintf("%+v", v)
	if rv := reflect.ValueOf(v); rv.Kind() == reflect.Pointer && !rv.IsNil() && rv.Elem().Kind() == reflect.Struct {
		if _, isProto := v.(proto.Message); !isProto {
			s = fmt.Sprintf("%+v", rv.Elem().Interface())
		}
	}
	if len(s) > 700 {
		s = s[:700] + "..."
	}
	return s
}

// c25RoundTrip: if Serialize accepts v, Deserialize must give back an equal
// value of the same dynamic type. Returns the frame (nil if not accepted).
func c25RoundTrip(r *verifrt.Run, c c25Codec, v any, class string) []byte {
	det := func(extra map[string]any) map[string]any {
		d := map[string]any{"serializer": c.name, "type": fmt.Sprintf("%T", v), "value": c25Text(v), "class": class}
		for k, x := range extra {
			d[k] = x
		}
		return d
	}
	out, err, pan := c25Call(func() (any, error) { return c.s.Serialize(v) })
	if pan != "" {
		r.Violation("serializer-panic:serialize:"+c.name, det(map[string]any{"panic": pan}))
		return nil
	}
	if err != nil {
		r.Count("rejected_by_serialize_"+c.name, 1)
		return nil
	}
	frame, _ := out.([]byte)
	if len(frame) == 0 {
		r.Violation("serializer-roundtrip:empty-bytes-without-error:"+c.name, det(nil))
		return nil
	}
	snapshot := bytes.Clone(frame)
	got, err, pan := c25Call(func() (any, error) { return c.s.Deserialize(frame) })
	switch {
	case pan != "":
		r.Violation("serializer-panic:deserialize-own-output:"+c.name, det(map[string]any{"panic": pan, "frame": c25Hex(snapshot)}))
	case err != nil:
		r.Violation("serializer-roundtrip:own-output-rejected:"+c.name+":"+class, det(map[string]any{"error": err.Error(), "frame": c25Hex(snapshot)}))
	case got == nil:
		r.Violation("serializer-roundtrip:nil-without-error:"+c.name, det(map[string]any{"frame": c25Hex(snapshot)}))
	case reflect.TypeOf(got) != reflect.TypeOf(v):
		r.Violation("serializer-roundtrip:dynamic-type-differs:"+c.name, det(map[string]any{"got_type": fmt.Sprintf("%T", got)}))
	default:
		if pm, ok := v.(proto.Message); ok {
			if !proto.Equal(pm, got.(proto.Message)) {
				r.Violation("serializer-roundtrip:message-differs:"+c.name, det(map[string]any{"got": c25Text(got), "frame": c25Hex(snapshot)}))
			}
		} else if same, why := c25Same(reflect.ValueOf(v), reflect.ValueOf(got), ""); !same {
			kind := "value"
			if strings.Contains(why, ": time ") {
				kind = "time-precision"
			} else if !c25ValidUTF8(reflect.ValueOf(v)) && (strings.Contains(why, ": string ") || strings.Contains(why, "key missing") || strings.Contains(why, ": map len ")) {
				kind = "non-utf8-string"
			}
			r.Violation("serializer-roundtrip:message-differs:"+c.name+":"+kind, det(map[string]any{"where": why, "got": c25Text(got), "frame": c25Hex(snapshot)}))
		}
	}
	if !bytes.Equal(frame, snapshot) {
		r.Violation("serializer-roundtrip:deserialize-modified-input:"+c.name, det(nil))
	}
	return snapshot
}

func c25Hex(b []byte) string {
	if len(b) > 200 {
		return fmt.Sprintf("%x...(%d bytes)", b[:200], len(b))
	}
	return fmt.Sprintf("%x", b)
}

// c25Mutate derives hostile bytes from a valid frame of the shared
// [totalLen|nameLen|name|payload] layout.
func c25Mutate(rng *rand.Rand, frame []byte) ([]byte, string) {
	b := bytes.Clone(frame)
	lens := []uint32{0, 1, 7, 8, 9, 255, 65536, 1<<31 - 1, 1 << 31, 1<<32 - 1}
	pick := func(cur uint32) uint32 {
		switch rng.Intn(4) {
		case 0:
			return cur + 1
		case 1:
			return cur - 1
		case 2:
			return cur + uint32(rng.Intn(40))
		}
		return lens[rng.Intn(len(lens))]
	}
	switch rng.Intn(8) {
	case 0:
		return b[:rng.Intn(len(b))], "truncate"
	case 1:
		if len(b) >= 4 {
			binary.BigEndian.PutUint32(b, pick(binary.BigEndian.Uint32(b)))
		}
		return b, "total-len"
	case 2:
		if len(b) >= 8 {
			binary.BigEndian.PutUint32(b[4:], pick(binary.BigEndian.Uint32(b[4:])))
		}
		return b, "name-len"
	case 3:
		for k := 1 + rng.Intn(4); k > 0; k-- {
			b[rng.Intn(len(b))] ^= byte(1 << uint(rng.Intn(8)))
		}
		return b, "bitflip"
	case 4:
		// keep header and name, scramble the payload
		if len(b) >= 8 {
			nl := int(binary.BigEndian.Uint32(b[4:]))
			for i := 8 + nl; i >= 8 && i < len(b); i++ {
				if rng.Intn(3) == 0 {
					b[i] = byte(rng.Intn(256))
				}
			}
		}
		return b, "payload-garbage"
	case 5:
		// payload cut short with consistent lengths
		if len(b) >= 8 {
			nl := int(binary.BigEndian.Uint32(b[4:]))
			if 8+nl < len(b) {
				cut := 8 + nl + rng.Intn(len(b)-8-nl)
				b = b[:cut]
				binary.BigEndian.PutUint32(b, uint32(cut))
			}
		}
		return b, "payload-truncated"
	case 6:
		g := make([]byte, rng.Intn(40))
		rng.Read(g)
		return g, "garbage"
	default:
		// deep nesting / huge announced containers inside the payload
		if len(b) >= 8 {
			nl := int(binary.BigEndian.Uint32(b[4:]))
			if 8+nl <= len(b) {
				var payload []byte
				switch rng.Intn(4) {
				case 0:
					payload = bytes.Repeat([]byte{0x81}, 200) // CBOR arrays nested 200 deep
				case 1:
					payload = []byte{0x9b, 0x7f, 0xff, 0xff, 0xff, 0xff, 0xff, 0xff, 0xff} // CBOR array of 2^63 items
				case 2:
					payload = []byte(strings.Repeat("[", 3000))
				default:
					payload = []byte(`{"S":"` + strings.Repeat("\\", 33) + `","I":1e400,"L":[1,2,`)
				}
				b = append(b[:8+nl:8+nl], payload...)
				binary.BigEndian.PutUint32(b, uint32(len(b)))
			}
		}
		return b, "payload-hostile-structure"
	}
}

// TestVerif_C25 (package remote): protobuf, CBOR and JSON serializers.
func TestVerif_C25(t *testing.T) {
	r := verifrt.Start(t, "C25")
	defer r.Finish()
	r.Rule("[remote] round-trip case = one generated value given to one serializer: every registered protobuf message type (internal schema, test schema, well-known types) filled by a seeded protoreflect filler for ProtoSerializer; registered Go structs (all integer widths, floats incl. edge values, unicode and non-UTF-8 strings, []byte, nested slices/maps/pointers/arrays, time.Time in several zones and precisions) and Go primitives for CBORSerializer and JSONSerializer; plus values no serializer supports (unregistered type, nil, non-proto for proto, channel field, NaN for JSON). Oracle: if Serialize returns no error, Deserialize of its output must return no error, the same dynamic type and an equal value (proto.Equal / structural equality with instants for time, nil==empty containers); non-trivial = Serialize accepted the value; distinct by serializer + frame bytes. hostile case = mutation of a valid frame given to every Deserialize under recover")
	r.Assume("equality of the Go value domain: time.Time by instant, nil and empty slices/maps alike, NaN equal to NaN; Go strings may hold any bytes, also bytes that are not valid UTF-8 (struct fields, map keys and values, slices of strings, the primitive string message): every serializer is judged by the same rule (accepted => equal after Deserialize; an error from Serialize is fine)")

	rng := r.Rand(2501)
	cbor, json, pb := NewCBORSerializer(), NewJSONSerializer(), NewProtoSerializer()
	for _, v := range []any{new(c25Msg), new(c25Small), new(c25Inner), new(c25Chan)} {
		types.RegisterSerializerType(v, cbor)
	}
	codecs := []c25Codec{{"proto", pb}, {"cbor", cbor}, {"json", json}}
	ptypes := c25ProtoTypes()
	if len(ptypes) < 100 {
		t.Fatalf("c25: only %d protobuf message types registered", len(ptypes))
	}
	r.Max("max_proto_message_types", int64(len(ptypes)))

	var frames [][]byte // valid frames kept for the hostile part
	var frameCodec []int
	keep := func(ci int, f []byte) {
		if f != nil && len(f) < 600 && len(frames) < 600 {
			frames = append(frames, f)
			frameCodec = append(frameCodec, ci)
		}
	}

	n := r.N(5000, 500000)
	perm := rng.Perm(len(ptypes))
	for i := 0; i < n; i++ {
		switch i % 5 {
		case 0, 1: // protobuf
			g := &c25Gen{rng: rng, nonFinite: true, invalidS: rng.Intn(12) == 0}
			mt := ptypes[perm[(i/5*2+i%5+r.Batch*31)%len(ptypes)]]
			m := mt.New()
			c25Fill(g, m, 3)
			f := c25RoundTrip(r, codecs[0], m.Interface(), "proto")
			keep(0, f)
			r.Case("proto/"+string(f), f != nil)
		case 2: // CBOR struct
			g := &c25Gen{rng: rng, invalidS: true, nonFinite: true, timeNanos: rng.Intn(2) == 0, timeWhole: rng.Intn(3) != 0}
			var v any = g.msg()
			if rng.Intn(5) == 0 {
				v = &c25Small{Name: g.str(), Count: int(g.i64()), When: g.time()}
			}
			f := c25RoundTrip(r, codecs[1], v, "struct")
			keep(1, f)
			r.Case("cbor/"+string(f), f != nil)
		case 3: // JSON struct
			g := &c25Gen{rng: rng, nonFinite: rng.Intn(8) == 0, timeNanos: true, invalidS: rng.Intn(3) == 0}
			var v any = g.msg()
			if rng.Intn(5) == 0 {
				v = &c25Small{Name: g.str(), Count: int(g.i64()), When: g.time()}
			}
			f := c25RoundTrip(r, codecs[2], v, "struct")
			keep(2, f)
			r.Case("json/"+string(f), f != nil)
		default: // primitives through both registry serializers, and unsupported values
			g := &c25Gen{rng: rng, nonFinite: rng.Intn(4) == 0, invalidS: rng.Intn(2) == 0}
			p := g.primitive()
			if g.invalidS && rng.Intn(4) == 0 {
				p = c25NonUTF8(rng) // the pre-registered primitive string message
			}
			ci := 1 + rng.Intn(2)
			f := c25RoundTrip(r, codecs[ci], p, "primitive")
			keep(ci, f)
			r.Case(codecs[ci].name+"/"+string(f), f != nil)

			// values no serializer supports: any accepted output must still round-trip
			var unsupported any
			switch rng.Intn(5) {
			case 0:
				unsupported = &c25Unregistered{X: rng.Int()}
			case 1:
				unsupported = nil
			case 2:
				unsupported = &c25Chan{C: make(chan int), X: 1}
			case 3:
				unsupported = struct{ A int }{rng.Int()}
			default:
				unsupported = []string{"not", "registered"}
			}
			for ci := range codecs {
				out, err, pan := c25Call(func() (any, error) { return codecs[ci].s.Serialize(unsupported) })
				if pan != "" {
					r.Violation("serializer-panic:serialize:"+codecs[ci].name, map[string]any{"type": fmt.Sprintf("%T", unsupported), "panic": pan})
				} else if err == nil {
					r.Violation("serializer-unsupported:bytes-instead-of-error:"+codecs[ci].name, map[string]any{"type": fmt.Sprintf("%T", unsupported), "bytes": c25Hex(out.([]byte))})
				} else {
					r.Count("unsupported_rejected", 1)
				}
			}
			// a Go struct given to the proto serializer, a proto message given to CBOR/JSON
			if out, err, _ := c25Call(func() (any, error) { return pb.Serialize(g.msg()) }); err == nil {
				r.Violation("serializer-unsupported:bytes-instead-of-error:proto", map[string]any{"type": "*c25Msg", "bytes": c25Hex(out.([]byte))})
			}
		}
		if i < 5 && i%5 >= 2 && i%5 <= 3 {
			r.Sample(map[string]any{"serializer": codecs[i%5-1].name, "frames_so_far": len(frames)})
		}
	}

	// hostile bytes to every Deserialize
	h := r.N(30000, 3000000)
	if len(frames) == 0 {
		r.Inconclusive("no valid frame collected for the hostile part")
		return
	}
	classes := map[string]int64{}
	var ok, rejected int64
	for i := 0; i < h; i++ {
		k := rng.Intn(len(frames))
		in, class := c25Mutate(rng, frames[k])
		classes[class]++
		for ci := range codecs {
			data := bytes.Clone(in)
			got, err, pan := c25Call(func() (any, error) { return codecs[ci].s.Deserialize(data) })
			switch {
			case pan != "":
				r.Violation("serializer-panic:deserialize:"+codecs[ci].name, map[string]any{"input": fmt.Sprintf("%x", in), "class": class, "derived_from": codecs[frameCodec[k]].name, "panic": pan})
			case err == nil && got == nil:
				r.Violation("serializer-hostile:nil-without-error:"+codecs[ci].name, map[string]any{"input": fmt.Sprintf("%x", in), "class": class})
			case err == nil:
				ok++
			default:
				rejected++
			}
			if class == "truncate" && err == nil && pan == "" {
				r.Violation("serializer-hostile:truncated-frame-accepted:"+codecs[ci].name, map[string]any{"input": fmt.Sprintf("%x", in), "derived_from": codecs[frameCodec[k]].name})
			}
		}
		r.Case("h/"+string(in), true)
	}
	for k, v := range classes {
		r.Count("hostile_"+k, v)
	}
	r.Count("hostile_deserialize_accepted", ok)
	r.Count("hostile_deserialize_rejected", rejected)
}
