//go:build verif

package breaker

import (
	"context"
	"errors"
	"fmt"
	"math/rand"
	"strings"
	"sync"
	"sync/atomic"
	"testing"
	"time"

	"github.com/tochemey/goakt/v4/internal/verifrt"
)

// C47 — the circuit breaker follows its state machine.
//
// Sequential part: generated (outcome, clock-advance) histories on a fake clock,
// every call result and State() compared with a reference machine that keeps the
// explicit list of recorded outcomes with their times. The rolling window is a
// bucketed approximation of a sliding window; the reference does not copy the
// bucket alignment: an outcome certainly counts while its age <= window-bucket,
// certainly does not count once its age >= window, and in between either is
// accepted (the verdict is required only when all admissible cut-offs agree).
//
// Concurrent part: gate-blocked probe bursts after the fake clock passed the
// open timeout, an in-flight gauge read when every caller has either entered its
// function or been rejected.

type c47Params struct {
	Thr         float64
	MinReq      int
	Buckets     int
	Window      time.Duration
	OpenTimeout time.Duration
	HalfOpenMax int
}

func (p c47Params) String() string {
	return fmt.Sprintf("thr=%.4f min=%d buckets=%d window=%s open=%s hmax=%d", p.Thr, p.MinReq, p.Buckets, p.Window, p.OpenTimeout, p.HalfOpenMax)
}

type c47Clock struct{ now atomic.Int64 }

func (c *c47Clock) Now() time.Time { return time.Unix(0, c.now.Load()) }

func c47GenParams(rng *rand.Rand) c47Params {
	p := c47Params{
		Thr:         []float64{0.5, 0.5, 0.25, 1.0 / 3, 0.6, 0.75, 1.0, 0.1, 0.0, 0.9}[rng.Intn(10)],
		MinReq:      []int{1, 2, 3, 3, 5, 10}[rng.Intn(6)],
		Buckets:     []int{1, 2, 3, 5, 10}[rng.Intn(5)],
		Window:      []time.Duration{10 * time.Millisecond, 100 * time.Millisecond, time.Second, 10 * time.Second, time.Second + 7*time.Millisecond, time.Minute}[rng.Intn(6)],
		HalfOpenMax: []int{1, 2, 5}[rng.Intn(3)],
	}
	switch rng.Intn(5) {
	case 0:
		p.OpenTimeout = p.Window / 4
	case 1:
		p.OpenTimeout = p.Window / 2
	case 2:
		p.OpenTimeout = p.Window
	case 3:
		p.OpenTimeout = 2 * p.Window
	default:
		p.OpenTimeout = 30 * time.Second
	}
	return p
}

func c47New(p c47Params, clk *c47Clock) *CircuitBreaker {
	return NewCircuitBreaker(
		WithFailureRate(p.Thr),
		WithMinRequests(p.MinReq),
		WithWindow(p.Window, p.Buckets),
		WithOpenTimeout(p.OpenTimeout),
		WithHalfOpenMaxCalls(p.HalfOpenMax),
		WithClock(clk.Now),
	)
}

// c47Ctx is a context whose termination is decided by the harness (no real timers).
type c47Ctx struct {
	mu   sync.Mutex
	err  error
	done chan struct{}
}

func c47NewCtx() *c47Ctx                             { return &c47Ctx{done: make(chan struct{})} }
func (c *c47Ctx) Deadline() (time.Time, bool)        { return time.Time{}, false }
func (c *c47Ctx) Done() <-chan struct{}              { return c.done }
func (c *c47Ctx) Value(any) any                      { return nil }
func (c *c47Ctx) Err() error                         { c.mu.Lock(); defer c.mu.Unlock(); return c.err }
func (c *c47Ctx) finish(err error) {
	c.mu.Lock()
	if c.err == nil {
		c.err = err
		close(c.done)
	}
	c.mu.Unlock()
}

type c47Event struct {
	t    int64
	fail bool
}

// c47Ref is the reference machine.
type c47Ref struct {
	p         c47Params
	state     State
	openUntil int64
	events    []c47Event
}

// decide evaluates the recorded outcomes at time now under every admissible
// window cut-off and returns the set of admissible next states.
func (m *c47Ref) decide(now int64) (next map[State]bool, sure, maybe int) {
	bd := int64(m.p.Window) / int64(m.p.Buckets)
	if bd <= 0 {
		bd = 1
	}
	sureAge := int64(m.p.Buckets-1) * bd // age <= this: certainly counted
	outAge := int64(m.p.Window)          // age >= this: certainly not counted
	var t, f int                          // certainly counted
	var maybeEv []c47Event                // oldest first as recorded
	for _, e := range m.events {
		age := now - e.t
		switch {
		case age <= sureAge:
			t++
			if e.fail {
				f++
			}
		case age >= outAge:
		default:
			maybeEv = append(maybeEv, e)
		}
	}
	next = map[State]bool{}
	eval := func(t, f int) {
		if t < m.p.MinReq {
			next[m.state] = true
			return
		}
		if float64(f)/float64(t) >= m.p.Thr {
			next[Open] = true
			return
		}
		if m.state == HalfOpen {
			next[Closed] = true
			return
		}
		next[m.state] = true
	}
	eval(t, f)
	// admissible cut-offs keep the k newest of the maybe events
	for k := 1; k <= len(maybeEv); k++ {
		e := maybeEv[len(maybeEv)-k]
		t++
		if e.fail {
			f++
		}
		eval(t, f)
	}
	return next, t - len(maybeEv), len(maybeEv)
}

type c47Step struct {
	Adv     int64
	Outcome string // ok fail panic cancel-before cancel-during deadline-during
	InCall  int64
	Fallbk  bool
	Metrics bool
}

func c47StateSet(m map[State]bool) string {
	var s []string
	for _, st := range []State{Closed, Open, HalfOpen} {
		if m[st] {
			s = append(s, st.String())
		}
	}
	return strings.Join(s, "|")
}

var errC47Fail = errors.New("c47 injected failure")

func TestVerif_C47(t *testing.T) {
	r := verifrt.Start(t, "C47")
	defer r.Finish()
	r.Rule("sequential case = one parameter tuple (threshold, minRequests, buckets, window, openTimeout, halfOpenMaxCalls) + a history of <=60 steps (clock advance in {0,<bucket,=bucket,window-bucket,window-1ns,window,openTimeout-1ns,openTimeout,>openTimeout}, outcome in {ok,fail,panic,ctx cancelled before,ctx cancelled during,deadline during}, optional in-call clock advance, optional fallback, optional Metrics() read) on a fake clock; every result and State() compared with a reference machine over the explicit outcome list (window slack of one bucket accepted); non-trivial = the history made the breaker open, half-open and leave half-open at least once; distinct by parameter+history text. burst case = G concurrent gate-blocked callers while open (all must be rejected) and after the open timeout (in-flight <= halfOpenMaxCalls, >=1 probe admitted, final state by the outcome plan); non-trivial = callers > halfOpenMaxCalls and rejected probes observed")
	r.Assume("the breaker reads time only through the WithClock function")

	rng := r.Rand(1)
	base := int64(1_700_000_000_000_000_000)

	// ---------------- sequential histories ----------------
	nSeq := r.N(5000, 1000000)
	var transCO, transOH, transHC, transHO, ambiguous, rejectedOpen, steps int64
	for c := 0; c < nSeq; c++ {
		p := c47GenParams(rng)
		clk := &c47Clock{}
		clk.now.Store(base)
		b := c47New(p, clk)
		ref := &c47Ref{p: p, state: Closed}
		bd := int64(p.Window) / int64(p.Buckets)
		hlen := 5 + rng.Intn(56)
		failBias := []int{20, 50, 80}[rng.Intn(3)]
		var hist strings.Builder
		hist.WriteString(p.String() + ";")
		var sawCO, sawOH, sawLeaveH bool
		bad := false
		violate := func(sig string, extra map[string]any) {
			if bad {
				return
			}
			bad = true
			d := map[string]any{"params": p.String(), "history": hist.String(), "ref_state": ref.state.String(), "impl_state": b.State().String(), "now_minus_base": clk.now.Load() - base, "open_until_minus_base": ref.openUntil - base}
			for k, v := range extra {
				d[k] = v
			}
			r.Violation(sig, d)
		}
		for i := 0; i < hlen && !bad; i++ {
			st := c47Step{}
			advs := []int64{0, 0, 1, bd / 2, bd - 1, bd, bd + 1, int64(p.Window) - bd, int64(p.Window) - 1, int64(p.Window), int64(p.OpenTimeout) - 1, int64(p.OpenTimeout), int64(p.OpenTimeout) + 1, 3 * int64(p.OpenTimeout)}
			st.Adv = advs[rng.Intn(len(advs))]
			if ref.state == Open && rng.Intn(3) == 0 {
				// aim at the open deadline exactly / just before / just after
				rem := ref.openUntil - clk.now.Load()
				st.Adv = []int64{rem - 1, rem, rem + 1}[rng.Intn(3)]
			}
			if st.Adv < 0 {
				st.Adv = 0
			}
			switch o := rng.Intn(100); {
			case o < 6:
				st.Outcome = "cancel-before"
			case o < 10:
				st.Outcome = "cancel-during"
			case o < 14:
				st.Outcome = "deadline-during"
			case o < 20:
				st.Outcome = "panic"
			default:
				if rng.Intn(100) < failBias {
					st.Outcome = "fail"
				} else {
					st.Outcome = "ok"
				}
			}
			if rng.Intn(8) == 0 {
				st.InCall = []int64{1, bd / 3, bd, int64(p.Window)}[rng.Intn(4)]
			}
			st.Fallbk = rng.Intn(6) == 0
			st.Metrics = rng.Intn(10) == 0
			fmt.Fprintf(&hist, "+%d:%s", st.Adv, st.Outcome)
			if st.InCall > 0 {
				fmt.Fprintf(&hist, "(+%d)", st.InCall)
			}
			if st.Fallbk {
				hist.WriteString("/fb")
			}
			steps++

			clk.now.Add(st.Adv)
			now := clk.now.Load()

			if st.Metrics {
				hist.WriteString("/M")
				mt := b.Metrics()
				_, sure, maybe := ref.decide(now)
				total := int(mt.Successes + mt.Failures)
				if total < sure || total > sure+maybe || mt.Total != mt.Successes+mt.Failures {
					violate("metrics-window-count-out-of-bounds", map[string]any{"metrics_total": mt.Total, "certain": sure, "maybe": maybe})
					break
				}
			}

			// ---- what the reference expects for admission ----
			expectRun := true
			switch {
			case st.Outcome == "cancel-before":
				expectRun = false
			case ref.state == Open && now < ref.openUntil:
				expectRun = false
			case ref.state == Open:
				ref.state = HalfOpen
				ref.events = ref.events[:0]
				sawOH = true
				transOH++
			}
			rejectExpected := !expectRun && st.Outcome != "cancel-before"
			if rejectExpected {
				rejectedOpen++
			}

			// ---- run the call ----
			ctx := c47NewCtx()
			if st.Outcome == "cancel-before" {
				ctx.finish(context.Canceled)
			}
			ran := 0
			token := &struct{ n int }{i}
			fn := func(cctx context.Context) (any, error) {
				ran++
				clk.now.Add(st.InCall)
				switch st.Outcome {
				case "ok":
					return token, nil
				case "fail":
					return nil, errC47Fail
				case "panic":
					panic(fmt.Sprintf("c47 panic %d", i))
				case "cancel-during":
					ctx.finish(context.Canceled)
					return nil, cctx.Err()
				case "deadline-during":
					ctx.finish(context.DeadlineExceeded)
					return nil, cctx.Err()
				}
				return nil, errors.New("unreachable")
			}
			var fbErr error
			fbCalls := 0
			var val any
			var err error
			if st.Fallbk {
				val, err = b.Execute(ctx, fn, func(_ context.Context, cause error) (any, error) {
					fbCalls++
					fbErr = cause
					return "fallback", nil
				})
			} else {
				val, err = b.Execute(ctx, fn)
			}
			cause := err
			if st.Fallbk {
				cause = fbErr
			}

			// ---- judge admission and the call's own result ----
			if expectRun && ran != 1 {
				sig := "call-not-admitted:" + ref.state.String()
				violate(sig, map[string]any{"step": i, "ran": ran, "err": fmt.Sprint(cause)})
				break
			}
			if !expectRun && ran != 0 {
				if rejectExpected {
					violate("call-admitted-while-open", map[string]any{"step": i})
				} else {
					violate("call-ran-with-cancelled-context", map[string]any{"step": i})
				}
				break
			}
			switch {
			case rejectExpected:
				if !errors.Is(cause, ErrOpen) {
					violate("open-rejection-wrong-error", map[string]any{"step": i, "err": fmt.Sprint(cause)})
				}
			case st.Outcome == "cancel-before":
				if cause == nil || !errors.Is(cause, context.Canceled) {
					violate("cancelled-before-wrong-error", map[string]any{"step": i, "err": fmt.Sprint(cause)})
				}
			case st.Outcome == "ok":
				if err != nil || val != any(token) || fbCalls != 0 {
					violate("success-result-altered", map[string]any{"step": i, "err": fmt.Sprint(err), "fallback_calls": fbCalls})
				}
			case st.Outcome == "fail":
				if cause != errC47Fail {
					violate("failure-error-altered", map[string]any{"step": i, "err": fmt.Sprint(cause)})
				}
			case st.Outcome == "panic":
				var be *Error
				if !errors.As(cause, &be) || be.Type != ErrorTypePanic {
					violate("panic-not-reported-as-panic-error", map[string]any{"step": i, "err": fmt.Sprint(cause)})
				}
			case st.Outcome == "cancel-during":
				if !errors.Is(cause, context.Canceled) {
					violate("cancelled-during-wrong-error", map[string]any{"step": i, "err": fmt.Sprint(cause)})
				}
			case st.Outcome == "deadline-during":
				if !errors.Is(cause, context.DeadlineExceeded) {
					violate("deadline-during-wrong-error", map[string]any{"step": i, "err": fmt.Sprint(cause)})
				}
			}
			if bad {
				break
			}
			if st.Fallbk && st.Outcome != "ok" && (fbCalls != 1 || val != any("fallback") || err != nil) {
				violate("fallback-not-used", map[string]any{"step": i, "fallback_calls": fbCalls})
				break
			}

			// ---- record the outcome in the reference and decide ----
			now = clk.now.Load()
			recorded := expectRun && st.Outcome != "cancel-during"
			got := b.State()
			if recorded {
				ref.events = append(ref.events, c47Event{t: now, fail: st.Outcome != "ok"})
				next, _, maybe := ref.decide(now)
				if !next[got] {
					from := ref.state
					sig := fmt.Sprintf("state-after-outcome:%s->%s-expected-%s", from, got, c47StateSet(next))
					violate(sig, map[string]any{"step": i, "outcome": st.Outcome, "window_events": len(ref.events), "maybe_events": maybe})
					break
				}
				if len(next) > 1 {
					ambiguous++
				}
				if got != ref.state {
					switch {
					case ref.state == Closed && got == Open:
						sawCO = true
						transCO++
					case ref.state == HalfOpen && got == Closed:
						sawLeaveH = true
						transHC++
					case ref.state == HalfOpen && got == Open:
						sawLeaveH = true
						transHO++
					}
					if got == Open {
						ref.openUntil = now + int64(p.OpenTimeout)
					}
					if got == Closed {
						ref.events = ref.events[:0]
					}
					ref.state = got
				}
			} else {
				// nothing recorded: the state must not move, except that an open
				// breaker whose timeout has passed may already show half-open
				ok := got == ref.state || (ref.state == Open && now >= ref.openUntil && got == HalfOpen)
				if !ok {
					violate(fmt.Sprintf("state-moved-without-outcome:%s->%s", ref.state, got), map[string]any{"step": i, "outcome": st.Outcome, "rejected": rejectExpected})
					break
				}
			}
			hist.WriteString("=" + got.String()[:1] + ";")
		}
		h := hist.String()
		r.Case(h, sawCO && sawOH && sawLeaveH)
		if c < 3 {
			if len(h) > 700 {
				h = h[:700] + "..."
			}
			r.Sample(map[string]any{"part": "sequential", "history": h})
		}
	}
	r.Count("seq_steps", steps)
	r.Count("seq_closed_to_open", transCO)
	r.Count("seq_open_to_halfopen", transOH)
	r.Count("seq_halfopen_to_closed", transHC)
	r.Count("seq_halfopen_to_open", transHO)
	r.Count("seq_rejected_while_open", rejectedOpen)
	r.Count("seq_decisions_inside_window_slack", ambiguous)

	// ---------------- concurrent bursts ----------------
	nBurst := r.N(200, 20000)
	for c := 0; c < nBurst; c++ {
		p := c47Params{
			Thr:         []float64{0.5, 0.3, 1.0, 0.75}[rng.Intn(4)],
			MinReq:      []int{1, 2, 3, 5, 8}[rng.Intn(5)],
			Buckets:     []int{1, 4, 10}[rng.Intn(3)],
			Window:      time.Minute,
			OpenTimeout: []time.Duration{time.Second, 30 * time.Second, 2 * time.Minute}[rng.Intn(3)],
			HalfOpenMax: []int{1, 2, 5}[rng.Intn(3)],
		}
		g := 4 + rng.Intn(61)
		plan := []string{"all-ok", "all-fail", "mixed"}[rng.Intn(3)]
		waves := 1 + rng.Intn(3)
		seed := rng.Int63()
		c47Burst(r, p, g, plan, waves, seed, base)
	}

	// ---------------- ungated churn (race detector, conservation of calls) ----------------
	nChurn := r.N(24, 1000)
	for c := 0; c < nChurn; c++ {
		p := c47GenParams(rng)
		clk := &c47Clock{}
		clk.now.Store(base)
		b := c47New(p, clk)
		g := 4 + rng.Intn(12)
		per := 300
		var ran, rejected, other atomic.Int64
		var wg sync.WaitGroup
		stop := make(chan struct{})
		for w := 0; w < g; w++ {
			wg.Add(1)
			go func(seed int64) {
				defer wg.Done()
				l := rand.New(rand.NewSource(seed))
				for i := 0; i < per; i++ {
					did := false
					fail := l.Intn(100) < 50
					pan := l.Intn(20) == 0
					_, err := b.Execute(context.Background(), func(context.Context) (any, error) {
						did = true
						if pan {
							panic("c47 churn")
						}
						if fail {
							return nil, errC47Fail
						}
						return 1, nil
					})
					switch {
					case did:
						ran.Add(1)
					case errors.Is(err, ErrOpen):
						rejected.Add(1)
					default:
						other.Add(1)
					}
					if i%16 == 0 {
						_ = b.Metrics()
						_ = b.State()
					}
				}
			}(rng.Int63())
		}
		wg.Add(1)
		go func() { // the clock moves while calls are in progress
			defer wg.Done()
			step := int64(p.Window) / int64(p.Buckets) / 3
			if step <= 0 {
				step = 1
			}
			for {
				select {
				case <-stop:
					return
				default:
					clk.now.Add(step)
					time.Sleep(20 * time.Microsecond)
				}
			}
		}()
		verifrt.WaitUntil(120*time.Second, func() bool { return ran.Load()+rejected.Load()+other.Load() >= int64(g*per) })
		close(stop)
		wg.Wait()
		if other.Load() > 0 {
			r.Violation("call-neither-ran-nor-rejected", map[string]any{"params": p.String(), "count": other.Load()})
		}
		if n := len(b.semCh); n != 0 {
			r.Violation("halfopen-token-leaked-at-quiescence", map[string]any{"params": p.String(), "tokens_held": n})
		}
		r.Count("churn_calls_run", ran.Load())
		r.Count("churn_calls_rejected", rejected.Load())
		r.Case(fmt.Sprintf("churn/%s/%d/%d", p.String(), g, c), ran.Load() > 0 && rejected.Load() > 0)
	}
}

// c47Burst runs one concurrent case.
func c47Burst(r *verifrt.Run, p c47Params, g int, plan string, waves int, seed int64, base int64) {
	clk := &c47Clock{}
	clk.now.Store(base)
	b := c47New(p, clk)
	key := fmt.Sprintf("burst/%s/g=%d/%s/w=%d", p.String(), g, plan, waves)
	detail := func(extra map[string]any) map[string]any {
		d := map[string]any{"params": p.String(), "callers": g, "plan": plan, "waves": waves, "seed": seed, "state": b.State().String()}
		for k, v := range extra {
			d[k] = v
		}
		return d
	}
	// trip it: minRequests failures in a row give rate 1.0 >= threshold
	for i := 0; i < p.MinReq; i++ {
		_, _ = b.Execute(context.Background(), func(context.Context) (any, error) { return nil, errC47Fail })
	}
	if b.State() != Open {
		r.Violation("not-open-after-minrequests-failures", detail(nil))
		r.Case(key, false)
		return
	}
	lrng := rand.New(rand.NewSource(seed))
	sawRejectedProbe := false
	contended := g > p.HalfOpenMax

	// wave 0: while open, before the timeout: everybody is rejected
	{
		clk.now.Add(int64(p.OpenTimeout) - 1)
		var ranOpen, rejOpen, otherOpen atomic.Int64
		var wg sync.WaitGroup
		start := make(chan struct{})
		for w := 0; w < g; w++ {
			wg.Add(1)
			go func() {
				defer wg.Done()
				<-start
				did := false
				_, err := b.Execute(context.Background(), func(context.Context) (any, error) { did = true; return 1, nil })
				switch {
				case did:
					ranOpen.Add(1)
				case errors.Is(err, ErrOpen):
					rejOpen.Add(1)
				default:
					otherOpen.Add(1)
				}
			}()
		}
		close(start)
		wg.Wait()
		r.Count("burst_rejected_while_open", rejOpen.Load())
		if ranOpen.Load() > 0 || otherOpen.Load() > 0 || b.State() != Open {
			r.Violation("call-admitted-while-open:concurrent", detail(map[string]any{"ran": ranOpen.Load(), "other": otherOpen.Load()}))
			r.Case(key, false)
			return
		}
		clk.now.Add(1) // now exactly at openUntil
	}

	for wv := 0; wv < waves; wv++ {
		stateBefore := b.State()
		if stateBefore == Open {
			// (only after an all-fail wave) wait out the timeout again
			clk.now.Add(int64(p.OpenTimeout) + int64(lrng.Intn(1000)))
		}
		limited := stateBefore != Closed
		var inflight, maxIn, admitted, rejected, other atomic.Int64
		gate := make(chan struct{})
		start := make(chan struct{})
		var wg sync.WaitGroup
		outcomes := make([]bool, g) // true = fail
		for i := range outcomes {
			switch plan {
			case "all-fail":
				outcomes[i] = true
			case "mixed":
				outcomes[i] = lrng.Intn(2) == 0
			}
		}
		for w := 0; w < g; w++ {
			wg.Add(1)
			go func(w int) {
				defer wg.Done()
				<-start
				did := false
				_, err := b.Execute(context.Background(), func(context.Context) (any, error) {
					did = true
					cur := inflight.Add(1)
					for {
						m := maxIn.Load()
						if cur <= m || maxIn.CompareAndSwap(m, cur) {
							break
						}
					}
					admitted.Add(1)
					<-gate
					inflight.Add(-1)
					if outcomes[w] {
						return nil, errC47Fail
					}
					return w, nil
				})
				switch {
				case did:
				case errors.Is(err, ErrOpen):
					rejected.Add(1)
				default:
					other.Add(1)
				}
			}(w)
		}
		close(start)
		settled := verifrt.WaitUntil(120*time.Second, func() bool {
			return admitted.Load()+rejected.Load()+other.Load() >= int64(g)
		})
		adm, rej := admitted.Load(), rejected.Load()
		stateMid := b.State()
		close(gate)
		wg.Wait()
		if !settled {
			r.Inconclusive("burst %s wave %d: callers did not settle within the watchdog (admitted=%d rejected=%d)", key, wv, adm, rej)
			r.Case(key, false)
			return
		}
		r.Count("burst_waves", 1)
		r.Count("burst_probes_admitted", adm)
		r.Count("burst_probes_rejected", rej)
		if limited {
			r.Max("burst_max_inflight_halfopen_per_batch", maxIn.Load())
		}
		if rej > 0 && limited {
			sawRejectedProbe = true
		}
		if other.Load() > 0 {
			r.Violation("call-neither-ran-nor-rejected", detail(map[string]any{"wave": wv, "count": other.Load()}))
		}
		if limited {
			if adm > int64(p.HalfOpenMax) || maxIn.Load() > int64(p.HalfOpenMax) {
				r.Violation(fmt.Sprintf("halfopen-probes-exceed-max:max=%d", p.HalfOpenMax), detail(map[string]any{"wave": wv, "admitted_simultaneously": adm, "max_inflight": maxIn.Load(), "state_before": stateBefore.String()}))
			}
			if adm == 0 {
				r.Violation("halfopen-no-probe-admitted", detail(map[string]any{"wave": wv, "rejected": rej, "state_before": stateBefore.String(), "tokens_held": len(b.semCh)}))
			}
			if stateMid != HalfOpen {
				r.Violation("not-halfopen-while-probes-in-flight:"+stateMid.String(), detail(map[string]any{"wave": wv, "state_before": stateBefore.String()}))
			}
		} else if adm != int64(g) {
			r.Violation("closed-breaker-rejected-calls", detail(map[string]any{"wave": wv, "admitted": adm, "rejected": rej}))
		}
		// final state of the wave by plan (records of a wave are concurrent: only
		// plans whose result does not depend on their order are judged)
		final := b.State()
		if limited {
			// outcomes recorded in this half-open period so far: this wave's probes
			// plus earlier waves that did not reach minRequests are still in the
			// window (the clock did not move); count conservatively with this wave only
			switch plan {
			case "all-ok":
				if adm >= int64(p.MinReq) && final != Closed {
					r.Violation("halfopen-not-closed-after-successful-probes", detail(map[string]any{"wave": wv, "probes": adm, "final": final.String()}))
				}
				if final == Open {
					r.Violation("halfopen-opened-on-successful-probes", detail(map[string]any{"wave": wv, "probes": adm}))
				}
			case "all-fail":
				if adm >= int64(p.MinReq) && final != Open {
					r.Violation("halfopen-not-reopened-after-failed-probes", detail(map[string]any{"wave": wv, "probes": adm, "final": final.String()}))
				}
				if final == Closed {
					r.Violation("halfopen-closed-on-failed-probes", detail(map[string]any{"wave": wv, "probes": adm}))
				}
			}
		}
		if n := len(b.semCh); n != 0 {
			r.Violation("halfopen-token-leaked-at-quiescence", detail(map[string]any{"wave": wv, "tokens_held": n}))
		}
	}
	r.Case(key, contended && sawRejectedProbe)
}
