// vcheck is the driver behind ./check: it builds instrumented test binaries
// from /repo's current working tree (overlay: yield points, harness tests,
// runtime package), runs them in child processes per batch, merges what the
// monitors observed, classifies violations against known_findings.json, writes
// evidence and sets the exit code (0 held, 1 violation, 3 inconclusive).
package main

import (
	"crypto/sha256"
	"encoding/hex"
	"encoding/json"
	"fmt"
	"os"
	"os/exec"
	"path/filepath"
	"regexp"
	"sort"
	"strconv"
	"strings"
	"sync"
	"syscall"
	"time"
)

const verifDir = "/verif"

// instrVersion is bumped whenever the overlay instrumenter changes what it generates.
const instrVersion = "instr-1"

// repoDir is /repo; VERIF_REPO points a run at a scratch worktree instead (used
// only to try the checks against seeded changes without touching /repo; its
// evidence, logs and replay files then go to outDir under /tmp, never to /verif).
var (
	repoDir = "/repo"
	outDir  = verifDir
)

func init() {
	if r := os.Getenv("VERIF_REPO"); r != "" && r != "/repo" {
		repoDir = filepath.Clean(r)
		outDir = filepath.Join(os.TempDir(), "verif-out", strings.ReplaceAll(strings.Trim(repoDir, "/"), "/", "_"))
		os.MkdirAll(outDir, 0o755)
	}
}

// Unit is one test binary + test function to run for a check.
type Unit struct {
	Pkg      string `json:"pkg"`     // repo-relative package dir, e.g. "actor"
	Test     string `json:"test"`    // test function name
	Variant  string `json:"variant"` // race | plain | asan
	BatchesQ int    `json:"batches_quick"`
	BatchesT int    `json:"batches_thorough"`
	Par      int    `json:"par"` // max children at once (0 = 16)
}

// Check is the configuration of one property's check.
type Check struct {
	ID          string   `json:"id"`
	Level       string   `json:"level"`
	Units       []Unit   `json:"units"`
	WatchdogQ   int      `json:"watchdog_quick_s"`
	WatchdogT   int      `json:"watchdog_thorough_s"`
	RaceFiles   []string `json:"race_files"` // a race report touching these files is a violation
	Floor       int      `json:"floor"`      // minimal distinct_nontrivial (else inconclusive)
	Rule        string   `json:"rule"`
	Assumptions []string `json:"assumptions"`
	Text        string   `json:"text"`      // level_claimed.text
	Note        string   `json:"note"`      // level_note
	Technique   string   `json:"technique"` // deciding method
	Only        string   `json:"only"`      // harness file prefixes this check needs (fallback build when the full package does not compile)
}

// Config is checks.json.
type Config struct {
	YieldFiles   []string `json:"yield_files"`
	NoLockFiles  []string `json:"nolock_files"`
	Checks       []Check  `json:"checks"`
	NotApplicable []struct {
		ID     string `json:"property_id"`
		Reason string `json:"reason"`
	} `json:"not_applicable"`
	HookCommits []string `json:"hook_commits"`
	Ready       []string `json:"ready"` // checks claimed in MANIFEST.json (others are still being validated)
}

// Finding is an entry of known_findings.json.
type Finding struct {
	Property string `json:"property"`
	ID       string `json:"id"`
	Status   string `json:"status"` // known | fixed
	SigRegex string `json:"sig_regex"`
	What     string `json:"what"`
	Commit   string `json:"commit,omitempty"`
}

func goBin() string {
	cands := []string{
		"/root/go/pkg/mod/golang.org/toolchain@v0.0.1-go1.26.0.linux-amd64/bin/go",
	}
	for _, c := range cands {
		if _, err := os.Stat(c); err == nil {
			return c
		}
	}
	return "go"
}

func goEnv() []string {
	env := os.Environ()
	out := env[:0:0]
	for _, e := range env {
		if strings.HasPrefix(e, "GOFLAGS=") || strings.HasPrefix(e, "GOTOOLCHAIN=") || strings.HasPrefix(e, "GOPROXY=") || strings.HasPrefix(e, "GOSUMDB=") || strings.HasPrefix(e, "GOWORK=") {
			continue
		}
		out = append(out, e)
	}
	return append(out, "GOFLAGS=-mod=mod", "GOTOOLCHAIN=local", "GOPROXY=off", "GOSUMDB=off", "GOWORK=off")
}

func die(code int, format string, args ...any) {
	fmt.Fprintf(os.Stderr, format+"\n", args...)
	os.Exit(code)
}

func loadConfig() *Config {
	b, err := os.ReadFile(filepath.Join(verifDir, "checks.json"))
	if err != nil {
		die(2, "checks.json: %v", err)
	}
	var c Config
	if err := json.Unmarshal(b, &c); err != nil {
		die(2, "checks.json: %v", err)
	}
	files, _ := filepath.Glob(filepath.Join(verifDir, "checks.d", "*.json"))
	sort.Strings(files)
	for _, f := range files {
		if strings.HasSuffix(f, ".unit.json") {
			continue
		}
		fb, err := os.ReadFile(f)
		if err != nil {
			die(2, "%s: %v", f, err)
		}
		var ck Check
		if err := json.Unmarshal(fb, &ck); err != nil {
			die(2, "%s: %v", f, err)
		}
		c.Checks = append(c.Checks, ck)
	}
	sort.Slice(c.Checks, func(i, j int) bool { return c.Checks[i].ID < c.Checks[j].ID })
	return &c
}

func loadFindings() []Finding {
	b, err := os.ReadFile(filepath.Join(verifDir, "known_findings.json"))
	if err != nil {
		return nil
	}
	var f []Finding
	if err := json.Unmarshal(b, &f); err != nil {
		die(2, "known_findings.json: %v", err)
	}
	return f
}

func run(dir string, env []string, name string, args ...string) (string, error) {
	cmd := exec.Command(name, args...)
	cmd.Dir = dir
	if env != nil {
		cmd.Env = env
	}
	out, err := cmd.CombinedOutput()
	return string(out), err
}

// treeKey hashes everything a build depends on: /repo HEAD, tracked changes,
// untracked go files, and /verif's harness, runtime and config.
func treeKey(pkg string) string {
	h := sha256.New()
	h.Write([]byte(pkg + "|" + os.Getenv("VERIF_ONLY") + "|" + repoDir))
	head, _ := run(repoDir, nil, "git", "rev-parse", "HEAD")
	h.Write([]byte(head))
	diff, _ := run(repoDir, nil, "git", "diff", "HEAD", "--", ".")
	h.Write([]byte(diff))
	untracked, _ := run(repoDir, nil, "git", "ls-files", "--others", "--exclude-standard")
	for _, f := range strings.Split(strings.TrimSpace(untracked), "\n") {
		if f == "" || !(strings.HasSuffix(f, ".go") || strings.HasSuffix(f, "go.mod") || strings.HasSuffix(f, "go.sum")) {
			continue
		}
		b, _ := os.ReadFile(filepath.Join(repoDir, f))
		h.Write([]byte(f))
		h.Write(b)
	}
	hfiles, _ := filepath.Glob(filepath.Join(verifDir, "hk", "*.go"))
	hfiles = append(hfiles, harnessFiles(pkg)...)
	for _, p := range hfiles {
		b, _ := os.ReadFile(p)
		h.Write([]byte(p))
		h.Write(b)
	}
	b, _ := os.ReadFile(filepath.Join(verifDir, "checks.json"))
	// only the instrumentation part of the config influences binaries
	var c Config
	json.Unmarshal(b, &c)
	fmt.Fprintf(h, "%v%v", c.YieldFiles, c.NoLockFiles)
	h.Write([]byte(instrVersion))
	return hex.EncodeToString(h.Sum(nil))[:16]
}

// harnessFiles lists the harness sources of one package. With VERIF_ONLY=c13,c02
// only files whose name starts with one of those prefixes (or with "common")
// are used, so that work on one harness is not blocked by another one.
func harnessFiles(pkg string) []string {
	all, _ := filepath.Glob(filepath.Join(verifDir, "harness", pkg, "*.go"))
	only := os.Getenv("VERIF_ONLY")
	if only == "" {
		return all
	}
	var out []string
	for _, f := range all {
		base := strings.ToLower(filepath.Base(f))
		if strings.HasPrefix(base, "common") {
			out = append(out, f)
			continue
		}
		for _, pre := range strings.Split(strings.ToLower(only), ",") {
			if pre != "" && strings.HasPrefix(base, pre) {
				out = append(out, f)
				break
			}
		}
	}
	return out
}

func sanitize(pkg string) string { return strings.ReplaceAll(pkg, "/", "_") }

// build makes sure the test binary for (pkg, variant) exists for this tree.
func build(cfg *Config, pkg, variant string) (string, error) {
	key := treeKey(pkg)
	dir := filepath.Join(verifDir, ".build", key)
	os.MkdirAll(dir, 0o755)
	bin := filepath.Join(dir, sanitize(pkg)+"."+variant+".test")
	lock, err := os.OpenFile(bin+".lock", os.O_CREATE|os.O_RDWR, 0o644)
	if err != nil {
		return "", err
	}
	defer lock.Close()
	syscall.Flock(int(lock.Fd()), syscall.LOCK_EX)
	defer syscall.Flock(int(lock.Fd()), syscall.LOCK_UN)
	if _, err := os.Stat(bin); err == nil {
		return bin, nil
	}
	tmp, err := os.MkdirTemp("", "verif-ov-")
	if err != nil {
		return "", err
	}
	defer os.RemoveAll(tmp)

	replace := map[string]string{}
	var sites []string
	nolock := map[string]bool{}
	for _, f := range expandGlobs(repoDir, cfg.NoLockFiles) {
		nolock[f] = true
	}
	for i, rel := range expandGlobs(repoDir, cfg.YieldFiles) {
		src, err := instrumentFile(repoDir, rel, &sites, nolock[rel])
		if err != nil {
			return "", fmt.Errorf("instrument %s: %v", rel, err)
		}
		p := filepath.Join(tmp, fmt.Sprintf("src%d_%s", i, filepath.Base(rel)))
		os.WriteFile(p, src, 0o644)
		replace[filepath.Join(repoDir, rel)] = p
	}
	// runtime package
	rtFiles, _ := filepath.Glob(filepath.Join(verifDir, "hk", "*.go"))
	for _, f := range rtFiles {
		replace[filepath.Join(repoDir, "internal/verifrt", filepath.Base(f))] = f
	}
	sp := filepath.Join(tmp, "sites_gen.go")
	os.WriteFile(sp, sitesSource(sites), 0o644)
	replace[filepath.Join(repoDir, "internal/verifrt/sites_gen.go")] = sp
	// harness tests for every package that has some (all are added so that
	// the dependency graph of any one package build is consistent)
	for _, p := range harnessFiles(pkg) {
		replace[filepath.Join(repoDir, pkg, filepath.Base(p))] = p
	}
	// hide the repository's own tests of the package being built
	own, _ := filepath.Glob(filepath.Join(repoDir, pkg, "*_test.go"))
	for _, f := range own {
		if _, isHarness := replace[f]; !isHarness {
			replace[f] = ""
		}
	}
	ov, _ := json.Marshal(map[string]any{"Replace": replace})
	ovPath := filepath.Join(tmp, "overlay.json")
	os.WriteFile(ovPath, ov, 0o644)
	// modfile: copy of the repo's go.mod/go.sum plus porcupine
	mod, _ := os.ReadFile(filepath.Join(repoDir, "go.mod"))
	sum, _ := os.ReadFile(filepath.Join(repoDir, "go.sum"))
	mod = append(mod, []byte("\nrequire github.com/anishathalye/porcupine v1.3.0\n")...)
	vsum, _ := os.ReadFile(filepath.Join(verifDir, "go.sum"))
	sum = append(sum, vsum...)
	os.WriteFile(filepath.Join(tmp, "go.mod"), mod, 0o644)
	os.WriteFile(filepath.Join(tmp, "go.sum"), sum, 0o644)

	args := []string{"test", "-c", "-tags", "verif", "-vet=off", "-overlay", ovPath, "-modfile", filepath.Join(tmp, "go.mod"), "-o", bin + ".tmp"}
	env := goEnv()
	switch variant {
	case "race":
		args = append(args, "-race")
	case "asan":
		args = append(args, "-asan")
		env = append(env, "CGO_ENABLED=1")
	case "checkptr":
		args = append(args, "-gcflags=all=-d=checkptr")
	}
	args = append(args, "./"+pkg)
	t0 := time.Now()
	out, err := run(repoDir, env, goBin(), args...)
	if err != nil {
		os.WriteFile(filepath.Join(dir, sanitize(pkg)+"."+variant+".buildlog"), []byte(out), 0o644)
		return "", fmt.Errorf("build %s (%s) failed:\n%s", pkg, variant, tail(out, 60))
	}
	os.Rename(bin+".tmp", bin)
	os.WriteFile(bin+".sites", []byte(strings.Join(sites, "\n")), 0o644)
	fmt.Fprintf(os.Stderr, "vcheck: built %s (%s) in %.1fs, %d yield sites\n", pkg, variant, time.Since(t0).Seconds(), len(sites))
	pruneBuilds(key)
	return bin, nil
}

func tail(s string, n int) string {
	lines := strings.Split(s, "\n")
	if len(lines) > n {
		lines = lines[len(lines)-n:]
	}
	return strings.Join(lines, "\n")
}

// pruneBuilds keeps the three most recent tree keys.
func pruneBuilds(keep string) {
	root := filepath.Join(verifDir, ".build")
	ents, _ := os.ReadDir(root)
	type kv struct {
		name string
		t    time.Time
	}
	var ks []kv
	for _, e := range ents {
		if !e.IsDir() || e.Name() == keep {
			continue
		}
		info, err := e.Info()
		if err != nil {
			continue
		}
		ks = append(ks, kv{e.Name(), info.ModTime()})
	}
	sort.Slice(ks, func(i, j int) bool { return ks[i].t.After(ks[j].t) })
	for i, k := range ks {
		// keep everything recent (several checks may be building and running at
		// once); drop only builds that are both old and beyond the newest 40
		if i >= 40 && time.Since(k.t) > 3*time.Hour {
			os.RemoveAll(filepath.Join(root, k.name))
		}
	}
}

// childResult mirrors verifrt.Result.
type childResult struct {
	ID           string           `json:"id"`
	Batch        int              `json:"batch"`
	Evaluations  int64            `json:"evaluations"`
	Hashes       []string         `json:"hashes"`
	HashCount    int              `json:"hash_count"`
	Samples      []any            `json:"samples"`
	Violations   []violation      `json:"violations"`
	Counters     map[string]int64 `json:"counters"`
	Notes        []string         `json:"notes"`
	Inconclusive []string         `json:"inconclusive"`
	Rule         string           `json:"rule"`
	Assumptions  []string         `json:"assumptions"`
	WallS        float64          `json:"wall_s"`
	Done         bool             `json:"done"`
}

type violation struct {
	Sig    string `json:"sig"`
	Detail any    `json:"detail"`
	Unit   string `json:"unit,omitempty"`
	Batch  int    `json:"batch"`
	Replay string `json:"replay,omitempty"`
}

var raceHdr = regexp.MustCompile(`(?m)^WARNING: DATA RACE`)
var frameRe = regexp.MustCompile(`(?m)^  (\S+?)\(\)\n\s+(\S+\.go):(\d+)`)

type raceReport struct {
	Text   string
	Files  []string
	Funcs  []string
	Sig    string
}

func parseRaces(text string) []raceReport {
	idx := raceHdr.FindAllStringIndex(text, -1)
	var out []raceReport
	for i, loc := range idx {
		end := len(text)
		if i+1 < len(idx) {
			end = idx[i+1][0]
		}
		blk := text[loc[0]:end]
		if j := strings.Index(blk, "=================="); j > 0 {
			blk = blk[:j]
		}
		r := raceReport{Text: blk}
		// the first two stacks (the two accesses): take frames until "Goroutine"
		acc := blk
		if j := strings.Index(acc, "\nGoroutine "); j > 0 {
			acc = acc[:j]
		}
		var tops []string
		for _, sec := range strings.Split(acc, "\n\n") {
			ms := frameRe.FindAllStringSubmatch(sec, -1)
			first := true
			for _, m := range ms {
				r.Files = append(r.Files, m[2])
				r.Funcs = append(r.Funcs, m[1])
				if first && !strings.HasPrefix(m[1], "runtime.") && !strings.HasPrefix(m[1], "sync/atomic.") && !strings.HasPrefix(m[1], "sync.") {
					tops = append(tops, shortFunc(m[1]))
					first = false
				}
			}
		}
		sort.Strings(tops)
		r.Sig = "race:" + strings.Join(tops, "|")
		out = append(out, r)
	}
	return out
}

func shortFunc(f string) string {
	if i := strings.LastIndex(f, "/"); i >= 0 {
		f = f[i+1:]
	}
	return f
}

func main() {
	if len(os.Args) < 3 {
		die(2, "usage: vcheck <ID> quick|thorough | vcheck <ID> --replay <path> | vcheck build-all")
	}
	id, tier := os.Args[1], os.Args[2]
	cfg := loadConfig()
	if id == "build-all" {
		buildAll(cfg)
		return
	}
	if id == "manifest" {
		writeManifest(cfg)
		return
	}
	var chk *Check
	for i := range cfg.Checks {
		if cfg.Checks[i].ID == id {
			chk = &cfg.Checks[i]
		}
	}
	if chk == nil {
		die(2, "unknown check %s", id)
	}
	if tier == "--replay" {
		if len(os.Args) < 4 {
			die(2, "replay path missing")
		}
		b, err := os.ReadFile(os.Args[3])
		if err != nil {
			die(2, "%v", err)
		}
		fmt.Printf("%s\n", b)
		var rp struct {
			Seed int64  `json:"seed"`
			Tier string `json:"tier"`
		}
		json.Unmarshal(b, &rp)
		if rp.Tier == "" {
			rp.Tier = "quick"
		}
		os.Setenv("VERIF_SEED", strconv.FormatInt(rp.Seed, 10))
		tier = rp.Tier
	}
	if tier != "quick" && tier != "thorough" {
		die(2, "tier must be quick or thorough")
	}
	os.Exit(runCheck(cfg, chk, tier))
}

func buildAll(cfg *Config) {
	seen := map[string]bool{}
	type job struct{ pkg, variant string }
	var jobs []job
	ready := map[string]bool{}
	for _, id := range cfg.Ready {
		ready[id] = true
	}
	for _, c := range cfg.Checks {
		if len(ready) > 0 && !ready[c.ID] {
			continue
		}
		for _, u := range c.Units {
			k := u.Pkg + "|" + u.Variant
			if !seen[k] {
				seen[k] = true
				jobs = append(jobs, job{u.Pkg, u.Variant})
			}
		}
	}
	// sequential: the go tool parallelises internally. A failing build is
	// reported but does not fail the setup: the affected check reports
	// INCONCLUSIVE reason=harness-build by itself.
	for _, j := range jobs {
		if _, err := build(cfg, j.pkg, j.variant); err != nil {
			fmt.Fprintln(os.Stderr, err)
		}
	}
}

func runCheck(cfg *Config, chk *Check, tier string) int {
	t0 := time.Now()
	seed := int64(1)
	if v := os.Getenv("VERIF_SEED"); v != "" {
		if n, err := strconv.ParseInt(v, 10, 64); err == nil {
			seed = n
		}
	}
	key := ""
	logDir := filepath.Join(outDir, "logs", chk.ID)
	os.RemoveAll(logDir)
	os.MkdirAll(logDir, 0o755)
	evPath := filepath.Join(outDir, "evidence", chk.ID+".json")
	os.MkdirAll(filepath.Dir(evPath), 0o755)

	var inconclusive []string
	type batchJob struct {
		unit  Unit
		bin   string
		batch int
		n     int
	}
	var jobs []batchJob
	for _, u := range chk.Units {
		bin, err := build(cfg, u.Pkg, u.Variant)
		if err != nil && os.Getenv("VERIF_ONLY") == "" && chk.Only != "" {
			// another check's harness file in this package does not compile against
			// this tree: fall back to this check's own harness files only
			fmt.Fprintf(os.Stderr, "vcheck: full harness build of %s failed, retrying with only %s\n", u.Pkg, chk.Only)
			os.Setenv("VERIF_ONLY", chk.Only)
			bin, err = build(cfg, u.Pkg, u.Variant)
			os.Unsetenv("VERIF_ONLY")
		}
		key += treeKey(u.Pkg) + " "
		if err != nil {
			fmt.Fprintln(os.Stderr, err)
			inconclusive = append(inconclusive, "harness-build: "+firstLine(err.Error()))
			continue
		}
		n := u.BatchesQ
		if tier == "thorough" {
			n = u.BatchesT
		}
		if n < 1 {
			n = 1
		}
		for b := 0; b < n; b++ {
			jobs = append(jobs, batchJob{u, bin, b, n})
		}
	}
	wd := chk.WatchdogQ
	if tier == "thorough" {
		wd = chk.WatchdogT
	}
	if wd <= 0 {
		wd = 600
		if tier == "thorough" {
			wd = 3600
		}
	}

	var mu sync.Mutex
	var results []childResult
	var viols []violation
	var unrelatedRaces []string
	raceCount := 0
	par := 16
	for _, u := range chk.Units {
		if u.Par > 0 && u.Par < par {
			par = u.Par
		}
	}
	sem := make(chan struct{}, par)
	var wg sync.WaitGroup
	for _, j := range jobs {
		wg.Add(1)
		sem <- struct{}{}
		go func(j batchJob) {
			defer wg.Done()
			defer func() { <-sem }()
			tag := fmt.Sprintf("%s.%s.%s.b%d", sanitize(j.unit.Pkg), j.unit.Variant, j.unit.Test, j.batch)
			outFile := filepath.Join(logDir, tag+".result.json")
			logFile := filepath.Join(logDir, tag+".log")
			raceLog := filepath.Join(logDir, tag+".race")
			lf, _ := os.Create(logFile)
			args := []string{"-s", "QUIT", strconv.Itoa(wd), j.bin, "-test.run", "^" + j.unit.Test + "$", "-test.count=1", "-test.timeout=0", "-test.v"}
			fmt.Fprintf(lf, "# cmd: timeout %s\n# env: VERIF_SEED=%d VERIF_TIER=%s VERIF_BATCH=%d VERIF_NBATCH=%d\n", strings.Join(args, " "), seed, tier, j.batch, j.n)
			cmd := exec.Command("timeout", args...)
			cmd.Dir = logDir
			cmd.Stdout = lf
			cmd.Stderr = lf
			cmd.Env = append(os.Environ(),
				"VERIF_SEED="+strconv.FormatInt(seed, 10), "VERIF_TIER="+tier,
				"VERIF_BATCH="+strconv.Itoa(j.batch), "VERIF_NBATCH="+strconv.Itoa(j.n),
				"VERIF_OUT="+outFile, "VERIF_ID="+chk.ID,
				"GORACE=halt_on_error=0 log_path="+raceLog+" history_size=3",
				"GOMEMLIMIT=6GiB", "GOTRACEBACK=all",
			)
			err := cmd.Run()
			lf.Close()
			var res childResult
			b, rerr := os.ReadFile(outFile)
			if rerr == nil {
				json.Unmarshal(b, &res)
			}
			exit := 0
			if err != nil {
				if ee, ok := err.(*exec.ExitError); ok {
					exit = ee.ExitCode()
				} else {
					exit = -1
				}
			}
			mu.Lock()
			defer mu.Unlock()
			sawRace := false
			if rf, _ := filepath.Glob(raceLog + ".*"); len(rf) > 0 {
				sawRace = true
			}
			for _, v := range res.Violations {
				v.Unit = tag
				v.Batch = j.batch
				viols = append(viols, v)
			}
			logText, _ := os.ReadFile(logFile)
			lt := string(logText)
			switch {
			case exit == 124 || exit == 137 || strings.Contains(lt, "SIGQUIT: quit"):
				inconclusive = append(inconclusive, fmt.Sprintf("watchdog %ds fired in %s (see %s)", wd, tag, logFile))
			case !res.Done:
				// crashed before finishing: panic / fatal error / sanitizer abort
				msg := crashLine(lt)
				viols = append(viols, violation{Sig: "crash:" + msg, Detail: map[string]any{"log": logFile, "exit": exit, "tail": tail(lt, 40)}, Unit: tag, Batch: j.batch})
			case exit != 0 && exit != 66:
				// test reported FAIL without recording a violation: harness assertion
				if len(res.Violations) == 0 && !sawRace {
					inconclusive = append(inconclusive, fmt.Sprintf("test failed without a recorded violation in %s (exit %d, see %s): %s", tag, exit, logFile, failLine(lt)))
				}
			}
			res.Batch = j.batch
			results = append(results, res)
			// race reports
			rfiles, _ := filepath.Glob(raceLog + ".*")
			for _, rf := range rfiles {
				rb, _ := os.ReadFile(rf)
				for _, rr := range parseRaces(string(rb)) {
					raceCount++
					sawRace = true
					anch := false
					for _, f := range rr.Files {
						for _, a := range chk.RaceFiles {
							if strings.HasSuffix(f, a) || strings.Contains(f, "/"+a) {
								anch = true
							}
						}
					}
					if anch {
						viols = append(viols, violation{Sig: rr.Sig, Detail: map[string]any{"report": rr.Text, "file": rf}, Unit: tag, Batch: j.batch})
					} else {
						unrelatedRaces = append(unrelatedRaces, rr.Sig)
					}
				}
			}
			// race reports printed into the test log (when log_path is not honoured)
			for _, rr := range parseRaces(lt) {
				raceCount++
				_ = rr
			}
		}(j)
	}
	wg.Wait()

	// merge
	hashes := map[string]struct{}{}
	var evals int64
	counters := map[string]int64{}
	var samples []any
	var notes []string
	rule := chk.Rule
	assumptions := append([]string{}, chk.Assumptions...)
	aseen := map[string]bool{}
	for _, a := range assumptions {
		aseen[a] = true
	}
	sort.Slice(results, func(i, j int) bool { return results[i].Batch < results[j].Batch })
	for _, r := range results {
		evals += r.Evaluations
		for _, h := range r.Hashes {
			hashes[h] = struct{}{}
		}
		for k, v := range r.Counters {
			if strings.HasPrefix(k, "max_") || strings.HasSuffix(k, "_max") {
				if v > counters[k] {
					counters[k] = v
				}
			} else {
				counters[k] += v
			}
		}
		if len(samples) < 5 {
			for _, s := range r.Samples {
				if len(samples) < 5 {
					samples = append(samples, s)
				}
			}
		}
		for _, n := range r.Notes {
			if len(notes) < 30 {
				notes = append(notes, n)
			}
		}
		for _, inc := range r.Inconclusive {
			inconclusive = append(inconclusive, inc)
		}
		if r.Rule != "" && rule == "" {
			rule = r.Rule
		}
		for _, a := range r.Assumptions {
			if !aseen[a] {
				aseen[a] = true
				assumptions = append(assumptions, a)
			}
		}
	}
	distinct := len(hashes)
	if chk.Floor > 0 && distinct < chk.Floor && len(viols) == 0 {
		inconclusive = append(inconclusive, fmt.Sprintf("observation floor not reached: %d distinct non-trivial cases < %d", distinct, chk.Floor))
	}

	// classify
	findings := loadFindings()
	type kf struct {
		f  Finding
		re *regexp.Regexp
	}
	var kfs []kf
	for _, f := range findings {
		if f.Property != chk.ID || f.Status != "known" {
			continue
		}
		re, err := regexp.Compile(f.SigRegex)
		if err != nil {
			die(2, "known_findings.json: bad regex %q", f.SigRegex)
		}
		kfs = append(kfs, kf{f, re})
	}
	knownHit := map[string]int{}
	var unknown []violation
	replayDir := filepath.Join(outDir, "replay", chk.ID)
	for _, v := range viols {
		matched := false
		for _, k := range kfs {
			if k.re.MatchString(v.Sig) {
				knownHit[k.f.ID]++
				matched = true
				break
			}
		}
		if !matched {
			unknown = append(unknown, v)
		}
	}
	for _, k := range kfs {
		if knownHit[k.f.ID] > 0 {
			fmt.Printf("KNOWN-FINDING: property=%s %s [%s, %d observation(s)]\n", chk.ID, k.f.What, k.f.ID, knownHit[k.f.ID])
		}
	}
	exit := 0
	if len(unknown) > 0 {
		os.MkdirAll(replayDir, 0o755)
		seenSig := map[string]bool{}
		for i := range unknown {
			v := &unknown[i]
			if seenSig[v.Sig] {
				continue
			}
			seenSig[v.Sig] = true
			p := filepath.Join(replayDir, fmt.Sprintf("%d-%s-%d.json", seed, tier, len(seenSig)))
			rb, _ := json.MarshalIndent(map[string]any{"property": chk.ID, "seed": seed, "tier": tier, "unit": v.Unit, "batch": v.Batch, "sig": v.Sig, "detail": v.Detail,
				"rerun": fmt.Sprintf("VERIF_SEED=%d ./check %s %s", seed, chk.ID, tier)}, "", " ")
			os.WriteFile(p, rb, 0o644)
			v.Replay = p
			fmt.Printf("VIOLATION property=%s replay=%s\n", chk.ID, p)
			fmt.Printf("  sig=%s\n", v.Sig)
		}
		exit = 1
	} else if len(inconclusive) > 0 {
		for _, inc := range inconclusive {
			fmt.Printf("INCONCLUSIVE property=%s reason=%s\n", chk.ID, inc)
		}
		exit = 3
	}

	// evidence
	if len(samples) == 0 {
		samples = append(samples, "no sample recorded")
	}
	cov := map[string]any{
		"evaluations":         evals,
		"distinct_nontrivial": distinct,
		"rule":                rule,
		"samples":             samples,
		"counters":            counters,
		"batches":             len(results),
		"race_reports":        raceCount,
		"unrelated_races":     dedup(unrelatedRaces),
		"notes":               notes,
		"known_findings_seen": knownHit,
		"inconclusive":        inconclusive,
		"tree_key":            key,
	}
	var vsigs []string
	for _, v := range unknown {
		vsigs = append(vsigs, v.Sig)
	}
	cov["violation_signatures"] = dedup(vsigs)
	ev := map[string]any{
		"property_id": chk.ID,
		"tier":        tier,
		"seed":        seed,
		"level":       chk.Level,
		"coverage":    cov,
		"assumptions": assumptions,
		"wall_s":      time.Since(t0).Seconds(),
		"violations":  len(unknown),
	}
	eb, _ := json.MarshalIndent(ev, "", " ")
	os.WriteFile(evPath, eb, 0o644)
	verdict := map[int]string{0: "HELD", 1: "VIOLATION", 3: "INCONCLUSIVE"}[exit]
	fmt.Printf("%s property=%s tier=%s seed=%d evaluations=%d distinct_nontrivial=%d known=%d wall=%.1fs\n", verdict, chk.ID, tier, seed, evals, distinct, len(viols)-len(unknown), time.Since(t0).Seconds())
	return exit
}

func dedup(in []string) []string {
	m := map[string]int{}
	for _, s := range in {
		m[s]++
	}
	out := []string{}
	for s, n := range m {
		out = append(out, fmt.Sprintf("%s x%d", s, n))
	}
	sort.Strings(out)
	if len(out) > 40 {
		out = out[:40]
	}
	return out
}

func firstLine(s string) string {
	if i := strings.IndexByte(s, '\n'); i > 0 {
		return s[:i]
	}
	return s
}

var crashRe = regexp.MustCompile(`(?m)^(panic: .*|fatal error: .*|==\d+==ERROR: .*|checkptr: .*)$`)

func crashLine(log string) string {
	if m := crashRe.FindString(log); m != "" {
		if len(m) > 160 {
			m = m[:160]
		}
		// a runtime error says nothing about where it happened: name the function
		// that was running, so that a known crash is identified by its site
		if strings.Contains(m, "runtime error") {
			if site := crashSite(log); site != "" {
				m += "@" + site
			}
		}
		return m
	}
	return "child exited without a result"
}

var crashSiteRe = regexp.MustCompile(`(?m)^goroutine \d+ \[running\]:\n((?:panic\(|runtime\.|testing\.)[^\n]*\n\t[^\n]*\n)*([^\n(]*(?:\([^)]*\))?[^\n(]*)\(`)

// crashSite returns the first non-runtime function of the goroutine that was
// running when the process died (package path stripped).
func crashSite(log string) string {
	m := crashSiteRe.FindStringSubmatch(log)
	if m == nil {
		return ""
	}
	fn := m[2]
	if i := strings.LastIndexByte(fn, '/'); i >= 0 {
		fn = fn[i+1:]
	}
	return fn
}

var failRe = regexp.MustCompile(`(?m)^\s+\S+_test\.go:\d+: .*$`)

func failLine(log string) string {
	if m := failRe.FindString(log); m != "" {
		return strings.TrimSpace(m)
	}
	return ""
}

// writeManifest regenerates MANIFEST.json from checks.json; every property of
// properties.jsonl that has no check is listed under not_applicable.
func writeManifest(cfg *Config) {
	claimed := map[string]bool{}
	var checks []map[string]any
	pall, _ := os.ReadFile(filepath.Join(verifDir, "properties.jsonl"))
	for _, c := range cfg.Checks {
		if !strings.Contains(string(pall), `"id": "`+c.ID+`"`) && !strings.Contains(string(pall), `"id":"`+c.ID+`"`) {
			continue // development-only check ids are not part of the interface
		}
		isReady := false
		for _, id := range cfg.Ready {
			if id == c.ID {
				isReady = true
			}
		}
		if !isReady {
			continue
		}
		claimed[c.ID] = true
		checks = append(checks, map[string]any{
			"property_id":         c.ID,
			"quick_cmd":           "./check " + c.ID + " quick",
			"thorough_cmd":        "./check " + c.ID + " thorough",
			"evidence_file":       "/verif/evidence/" + c.ID + ".json",
			"replay_cmd_template": "./check " + c.ID + " --replay {path}",
			"engine":              "vcheck",
			"level_claimed":       map[string]any{"category": c.Level, "text": c.Text, "design_ref": "DESIGN.md §3 " + c.ID},
			"level_note":          c.Note,
			"technique":           c.Technique,
		})
	}
	reasons := map[string]string{}
	for _, n := range cfg.NotApplicable {
		reasons[n.ID] = n.Reason
	}
	var na []map[string]any
	pb, _ := os.ReadFile(filepath.Join(verifDir, "properties.jsonl"))
	for _, line := range strings.Split(strings.TrimSpace(string(pb)), "\n") {
		var p struct {
			ID string `json:"id"`
		}
		if json.Unmarshal([]byte(line), &p) != nil || p.ID == "" || claimed[p.ID] {
			continue
		}
		reason := reasons[p.ID]
		if reason == "" {
			reason = "no runtime monitor has been built for this property yet; it is not claimed"
		}
		na = append(na, map[string]any{"property_id": p.ID, "reason": reason})
	}
	m := map[string]any{
		"version":   1,
		"setup_cmd": "./setup.sh",
		"hooks": map[string]any{
			"guard":            "verif",
			"enable":           "go test -c -tags verif -overlay <generated: yield points + /verif/harness tests + internal/verifrt> -modfile <copy of go.mod + porcupine> (done by ./check from /repo's current working tree)",
			"baseline_off_cmd": "cd /repo && go test -mod=mod -json -vet=off -count=1 -timeout 25m ./...",
			"source_commits":   cfg.HookCommits,
			"add_only":         true,
		},
		"engines": []map[string]any{
			{"name": "vcheck", "path": "/verif/cmd/vcheck", "kind_free_text": "driver: overlay build of instrumented test binaries from /repo's working tree, child process per batch, race-log parsing, known-finding classification, evidence"},
			{"name": "verifrt", "path": "/verif/hk", "kind_free_text": "harness runtime: case/violation ledger, NOISE schedule perturbation and SERIAL deterministic scheduler at injected yield points"},
			{"name": "harness", "path": "/verif/harness", "kind_free_text": "per-property monitors (reference models, ledgers, automata, porcupine histories) compiled into the repository's packages as internal tests"},
		},
		"checks":         checks,
		"not_applicable": na,
		"notes":          "All checks are runtime monitors over executions of the real code; verdicts are HELD (exit 0) / VIOLATION (exit 1) / INCONCLUSIVE (exit 3, never on the unchanged tree). Known findings: /verif/known_findings.json.",
	}
	if len(cfg.HookCommits) == 0 {
		m["hooks"].(map[string]any)["source_commits"] = []string{}
	}
	if na == nil {
		m["not_applicable"] = []map[string]any{}
	}
	b, _ := json.MarshalIndent(m, "", " ")
	os.WriteFile(filepath.Join(verifDir, "MANIFEST.json"), append(b, '\n'), 0o644)
}
