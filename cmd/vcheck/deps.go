package main

// porcupine is used by the harness tests (through the generated -modfile); the
// blank import keeps its checksums in /verif/go.sum, which the build appends to
// the copy of the repository's go.sum.
import _ "github.com/anishathalye/porcupine"
