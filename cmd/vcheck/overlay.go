package main

import (
	"bytes"
	"fmt"
	"go/ast"
	"go/parser"
	"go/printer"
	"go/token"
	"os"
	"path/filepath"
	"sort"
	"strconv"
	"strings"
)

const rtImport = "github.com/tochemey/goakt/v4/internal/verifrt"

var syncMethods = map[string]bool{
	"Load": true, "Store": true, "Swap": true, "CompareAndSwap": true, "CompareAndSwapWeak": true,
	"Add": true, "Inc": true, "Dec": true, "Sub": true, "CAS": true, "Toggle": true, "And": true, "Or": true,
	"Lock": true, "RLock": true, "TryLock": true, "TryRLock": true,
	"Wait": true, "Signal": true, "Broadcast": true,
}

type instrumenter struct {
	fset   *token.FileSet
	file   string // repo-relative
	sites  *[]string
	nolock bool // do not rewrite Lock() sites (types without TryLock)
}

func (in *instrumenter) newSite(pos token.Pos) int {
	p := in.fset.Position(pos)
	*in.sites = append(*in.sites, fmt.Sprintf("%s:%d", in.file, p.Line))
	return len(*in.sites) - 1
}

func yieldStmt(site int) ast.Stmt {
	return &ast.ExprStmt{X: &ast.CallExpr{
		Fun:  &ast.SelectorExpr{X: ast.NewIdent("verifrt"), Sel: ast.NewIdent("Yield")},
		Args: []ast.Expr{&ast.BasicLit{Kind: token.INT, Value: strconv.Itoa(site)}},
	}}
}

// exprHasSync reports whether e (not descending into function literals)
// contains a synchronization operation.
func exprHasSync(e ast.Node) bool {
	if e == nil {
		return false
	}
	found := false
	ast.Inspect(e, func(n ast.Node) bool {
		if found {
			return false
		}
		switch x := n.(type) {
		case *ast.FuncLit:
			return false
		case *ast.UnaryExpr:
			if x.Op == token.ARROW {
				found = true
			}
		case *ast.CallExpr:
			if sel, ok := x.Fun.(*ast.SelectorExpr); ok {
				if id, ok := sel.X.(*ast.Ident); ok && id.Name == "atomic" {
					found = true
					return false
				}
				if syncMethods[sel.Sel.Name] {
					found = true
					return false
				}
			}
		}
		return true
	})
	return found
}

// stmtNeedsYield looks only at the statement's own expressions, not at nested
// blocks (those are handled when their statement lists are visited).
func stmtNeedsYield(s ast.Stmt) bool {
	switch x := s.(type) {
	case *ast.ExprStmt:
		return exprHasSync(x.X)
	case *ast.AssignStmt:
		for _, e := range x.Rhs {
			if exprHasSync(e) {
				return true
			}
		}
		for _, e := range x.Lhs {
			if exprHasSync(e) {
				return true
			}
		}
	case *ast.SendStmt:
		return true
	case *ast.SelectStmt:
		return true
	case *ast.ReturnStmt:
		for _, e := range x.Results {
			if exprHasSync(e) {
				return true
			}
		}
	case *ast.IfStmt:
		if x.Init != nil && stmtNeedsYield(x.Init) {
			return true
		}
		return exprHasSync(x.Cond)
	case *ast.SwitchStmt:
		if x.Init != nil && stmtNeedsYield(x.Init) {
			return true
		}
		return exprHasSync(x.Tag)
	case *ast.ForStmt:
		if x.Init != nil && stmtNeedsYield(x.Init) {
			return true
		}
		return false // the body head gets its own yield
	case *ast.RangeStmt:
		return exprHasSync(x.X)
	case *ast.IncDecStmt:
		return exprHasSync(x.X)
	case *ast.DeclStmt:
		return exprHasSync(x.Decl)
	case *ast.LabeledStmt:
		return false
	case *ast.GoStmt:
		return false
	case *ast.DeferStmt:
		return false
	}
	return false
}

// lockRewrite turns `X.Lock()` into a serial-aware acquisition.
func (in *instrumenter) lockRewrite(s ast.Stmt) (ast.Stmt, bool) {
	if in.nolock {
		return nil, false
	}
	es, ok := s.(*ast.ExprStmt)
	if !ok {
		return nil, false
	}
	call, ok := es.X.(*ast.CallExpr)
	if !ok || len(call.Args) != 0 {
		return nil, false
	}
	sel, ok := call.Fun.(*ast.SelectorExpr)
	if !ok {
		return nil, false
	}
	try := ""
	switch sel.Sel.Name {
	case "Lock":
		try = "TryLock"
	case "RLock":
		try = "TryRLock"
	default:
		return nil, false
	}
	site := in.newSite(s.Pos())
	// if verifrt.SerialOn() { for !X.TryLock() { verifrt.Yield(site) } } else { verifrt.Yield(site); X.Lock() }
	tryCall := &ast.CallExpr{Fun: &ast.SelectorExpr{X: sel.X, Sel: ast.NewIdent(try)}}
	serial := &ast.BlockStmt{List: []ast.Stmt{
		&ast.ForStmt{Cond: &ast.UnaryExpr{Op: token.NOT, X: tryCall}, Body: &ast.BlockStmt{List: []ast.Stmt{yieldStmt(site)}}},
	}}
	normal := &ast.BlockStmt{List: []ast.Stmt{yieldStmt(site), s}}
	return &ast.IfStmt{
		Cond: &ast.CallExpr{Fun: &ast.SelectorExpr{X: ast.NewIdent("verifrt"), Sel: ast.NewIdent("SerialOn")}},
		Body: serial,
		Else: normal,
	}, true
}

func (in *instrumenter) rewriteList(list []ast.Stmt) []ast.Stmt {
	out := make([]ast.Stmt, 0, len(list)+4)
	for _, s := range list {
		in.descend(s)
		if ls, ok := s.(*ast.LabeledStmt); ok {
			// yield before the labelled statement when the inner one needs it
			if stmtNeedsYield(ls.Stmt) {
				out = append(out, yieldStmt(in.newSite(s.Pos())))
			}
			out = append(out, s)
			continue
		}
		if rs, ok := in.lockRewrite(s); ok {
			out = append(out, rs)
			continue
		}
		if stmtNeedsYield(s) {
			out = append(out, yieldStmt(in.newSite(s.Pos())))
		}
		out = append(out, s)
	}
	return out
}

// descend rewrites nested statement lists of s.
func (in *instrumenter) descend(s ast.Stmt) {
	switch x := s.(type) {
	case *ast.BlockStmt:
		x.List = in.rewriteList(x.List)
	case *ast.IfStmt:
		in.descend(x.Body)
		if x.Else != nil {
			in.descend(x.Else)
		}
	case *ast.ForStmt:
		in.descend(x.Body)
		x.Body.List = append([]ast.Stmt{yieldStmt(in.newSite(x.Body.Pos()))}, x.Body.List...)
	case *ast.RangeStmt:
		in.descend(x.Body)
	case *ast.SwitchStmt:
		in.descend(x.Body)
	case *ast.TypeSwitchStmt:
		in.descend(x.Body)
	case *ast.SelectStmt:
		in.descend(x.Body)
	case *ast.CaseClause:
		x.Body = in.rewriteList(x.Body)
	case *ast.CommClause:
		x.Body = in.rewriteList(x.Body)
	case *ast.LabeledStmt:
		in.descend(x.Stmt)
	case *ast.ExprStmt, *ast.AssignStmt, *ast.GoStmt, *ast.DeferStmt, *ast.ReturnStmt, *ast.DeclStmt:
		in.funcLits(s)
	}
}

// funcLits instruments bodies of function literals inside simple statements.
func (in *instrumenter) funcLits(n ast.Node) {
	ast.Inspect(n, func(m ast.Node) bool {
		if fl, ok := m.(*ast.FuncLit); ok {
			fl.Body.List = in.rewriteList(fl.Body.List)
			return false
		}
		return true
	})
}

// instrumentFile returns the instrumented source of one file.
func instrumentFile(repo, rel string, sites *[]string, nolock bool) ([]byte, error) {
	fset := token.NewFileSet()
	src, err := os.ReadFile(filepath.Join(repo, rel))
	if err != nil {
		return nil, err
	}
	f, err := parser.ParseFile(fset, rel, src, parser.ParseComments)
	if err != nil {
		return nil, err
	}
	in := &instrumenter{fset: fset, file: rel, sites: sites, nolock: nolock}
	before := len(*sites)
	for _, d := range f.Decls {
		fd, ok := d.(*ast.FuncDecl)
		if !ok || fd.Body == nil {
			continue
		}
		fd.Body.List = in.rewriteList(fd.Body.List)
	}
	if len(*sites) == before {
		return src, nil
	}
	// add the import
	imp := &ast.ImportSpec{Path: &ast.BasicLit{Kind: token.STRING, Value: strconv.Quote(rtImport)}}
	gd := &ast.GenDecl{Tok: token.IMPORT, Specs: []ast.Spec{imp}}
	f.Decls = append([]ast.Decl{gd}, f.Decls...)
	f.Imports = append(f.Imports, imp)
	// comments are dropped from the instrumented copy: free-floating comments
	// would otherwise be misplaced by the printer around inserted statements.
	// Build constraints are kept by re-emitting them by hand.
	var head bytes.Buffer
	for _, cg := range f.Comments {
		if cg.End() >= f.Package {
			break
		}
		for _, c := range cg.List {
			if strings.HasPrefix(c.Text, "//go:build") || strings.HasPrefix(c.Text, "// +build") {
				head.WriteString(c.Text + "\n")
			}
		}
	}
	if head.Len() > 0 {
		head.WriteString("\n")
	}
	f.Comments = nil
	f.Doc = nil
	stripDirectiveLoss(f)
	var buf bytes.Buffer
	buf.Write(head.Bytes())
	cfg := printer.Config{Mode: printer.UseSpaces | printer.TabIndent, Tabwidth: 8}
	if err := cfg.Fprint(&buf, fset, f); err != nil {
		return nil, err
	}
	return buf.Bytes(), nil
}

// stripDirectiveLoss keeps doc comments that carry compiler directives
// (//go:noinline, //go:nosplit ...) attached to their declarations; other doc
// comments are removed together with all comments.
func stripDirectiveLoss(f *ast.File) {
	for _, d := range f.Decls {
		switch x := d.(type) {
		case *ast.FuncDecl:
			x.Doc = keepDirectives(x.Doc)
		case *ast.GenDecl:
			x.Doc = keepDirectives(x.Doc)
			for _, s := range x.Specs {
				switch y := s.(type) {
				case *ast.TypeSpec:
					y.Doc, y.Comment = nil, nil
					clearFieldComments(y.Type)
				case *ast.ValueSpec:
					y.Doc, y.Comment = nil, nil
				}
			}
		}
	}
	ast.Inspect(f, func(n ast.Node) bool {
		switch x := n.(type) {
		case *ast.Field:
			x.Doc, x.Comment = nil, nil
		case *ast.StructType, *ast.InterfaceType:
			_ = x
		}
		return true
	})
}

func clearFieldComments(e ast.Expr) {}

func keepDirectives(cg *ast.CommentGroup) *ast.CommentGroup {
	if cg == nil {
		return nil
	}
	var keep []*ast.Comment
	for _, c := range cg.List {
		if strings.HasPrefix(c.Text, "//go:") {
			keep = append(keep, c)
		}
	}
	if len(keep) == 0 {
		return nil
	}
	return &ast.CommentGroup{List: keep}
}

// sitesSource generates the site table file for the verifrt package.
func sitesSource(sites []string) []byte {
	var b bytes.Buffer
	b.WriteString("package verifrt\n\nfunc init() {\n\tSiteNames = []string{\n")
	for _, s := range sites {
		fmt.Fprintf(&b, "\t\t%q,\n", s)
	}
	b.WriteString("\t}\n\tSiteCount = len(SiteNames)\n}\n")
	return b.Bytes()
}

// expandGlobs resolves repo-relative globs to non-test go files.
func expandGlobs(repo string, globs []string) []string {
	seen := map[string]bool{}
	var out []string
	for _, g := range globs {
		m, _ := filepath.Glob(filepath.Join(repo, g))
		for _, p := range m {
			if strings.HasSuffix(p, "_test.go") || !strings.HasSuffix(p, ".go") {
				continue
			}
			rel, _ := filepath.Rel(repo, p)
			if !seen[rel] {
				seen[rel] = true
				out = append(out, rel)
			}
		}
	}
	sort.Strings(out)
	return out
}
